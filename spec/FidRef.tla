------------------------------- MODULE FidRef -------------------------------
(* The fid table and the protocol rules of one connection as a sequential state machine: this
   module IS the statement of properties C04 and C05 in executable form.  It demands only what
   the properties say:
     - which fids are valid after a history (valid only through a successful Tauth, Tattach or
       complete Twalk; invalid after a successful Tclunk or any Tremove; unchanged by failed,
       partial or unrelated operations),
     - 'unknown fid' for a request naming an invalid fid, 'fid in use' for one that would bind a
       valid fid, without reaching the implementation,
     - the fid-state rules that must be refused before the implementation is called, and that
       every other request is forwarded exactly once,
     - no attach reaches the implementation unless the authentication check accepted it,
     - the implementation is told of the destruction of every fid it was shown exactly once, no
       later than the reply that invalidates it.
   Error texts other than the two named ones are unconstrained ("refused").  Requests on which the
   properties are silent (e.g. Tcreate of a directory with a mode other than OREAD, OREAD|OCEXEC on
   a directory, operations on authentication fids beyond clunk) are not generated.

   An action is a tuple; Step(tab, a) gives the expected observation and the successor table.
   Observation: [reply, fwd, destroyed] with
     reply in {"ok", "unknownfid", "inuse", "refused", "implerr"}
     fwd   = sequence of calls the implementation must see, each <<op, fid, newfid, user>> (0 = none;
             user = the user the fid is bound to, as the implementation sees it)
     destroyed = set of fid numbers whose destruction must have been reported by the time of the reply *)
EXTENDS Integers, Sequences, FiniteSets, TLC

CONSTANTS Fids,        \* fid numbers used by the client, e.g. {1, 2}
          NOFID,       \* a number standing for 0xFFFFFFFF
          Dotu,        \* the connection speaks 9P2000.u
          HasAuth,     \* the implementation provides AuthOps
          FixOexec,    \* writing through a fid opened OEXEC is refused (property) / forwarded (code as found)
          CountClasses \* classes of read/write counts, see CountOK

Absent == [kind |-> "none", open |-> "no", user |-> 0]
Kinds == {"dir", "file", "auth"}
Modes == {"OREAD", "OWRITE", "ORDWR", "OEXEC", "OREAD+OTRUNC", "OWRITE+OTRUNC", "ORDWR+ORCLOSE"}
OpenFor(m) == CASE m \in {"OREAD", "OREAD+OTRUNC"} -> "r"
                [] m \in {"OWRITE", "OWRITE+OTRUNC"} -> "w"
                [] m = "ORDWR" \/ m = "ORDWR+ORCLOSE" -> "rw"
                [] m = "OEXEC" -> "x"
Perms == {"file", "dir", "symlink", "link", "device", "namedpipe", "socket"}   \* one class per special-file bit of 9P2000.u
Special(p) == p \in {"symlink", "link", "device", "namedpipe", "socket"}
(* count classes: "0", "lim-1", "lim" are within msize-IOHDRSZ; "lim+1", "2^31", "2^32-24", "2^32-1" exceed it *)
CountOK(c) == c \in {"0", "lim-1", "lim"}

VARIABLES tab, obs, last
vars == <<tab, obs, last>>

Valid(t, f) == f \in Fids /\ t[f].kind # "none"

Obs(reply, fwd, destroyed) == [reply |-> reply, fwd |-> fwd, destroyed |-> destroyed]
Res(o, t) == [obs |-> o, tab |-> t]
Refused(t) == Res(Obs("refused", <<>>, {}), t)
Unknown(t) == Res(Obs("unknownfid", <<>>, {}), t)
InUse(t)   == Res(Obs("inuse", <<>>, {}), t)

(* ---- the actions ---- *)
(* <<"attach", fid, afid, auth, out, user>>  afid in Fids \cup {NOFID}; auth in {"accept","reject"} (only
   consulted when HasAuth); out in {"dir","file","err"} = what the implementation answers *)
Attach(t, fid, afid, auth, out, u) ==
  IF fid = NOFID THEN Refused(t)
  ELSE IF Valid(t, fid) THEN InUse(t)
  ELSE IF afid # NOFID /\ ~Valid(t, afid) THEN Unknown(t)
  ELSE IF HasAuth /\ auth = "reject"
         THEN Res(Obs("implerr", <<<<"authcheck", fid, afid, u>>>>, {fid}), t)      \* shown to AuthCheck, then dropped
  ELSE LET pre == IF HasAuth THEN <<<<"authcheck", fid, afid, u>>>> ELSE <<>> IN
       IF out = "err"
         THEN Res(Obs("implerr", pre \o <<<<"attach", fid, afid, u>>>>, {fid}), t)
         ELSE Res(Obs("ok", pre \o <<<<"attach", fid, afid, u>>>>, {}), [t EXCEPT ![fid] = [kind |-> out, open |-> "no", user |-> u]])

(* <<"auth", afid, out>>  out in {"ok","err"} *)
Auth(t, afid, out) ==
  IF afid = NOFID THEN Refused(t)
  ELSE IF Valid(t, afid) THEN InUse(t)
  ELSE IF ~HasAuth THEN Res(Obs("refused", <<>>, {}), t)      \* never shown: zero or one notification accepted
  ELSE IF out = "err" THEN Res(Obs("implerr", <<<<"authinit", afid, 0, 0>>>>, {afid}), t)
  ELSE Res(Obs("ok", <<<<"authinit", afid, 0, 0>>>>, {}), [t EXCEPT ![afid] = [kind |-> "auth", open |-> "no", user |-> 0]])

(* <<"walk", fid, newfid, n, out>>  n names (0 or 2); out in {"full-dir","full-file","partial","err"} *)
Walk(t, fid, newfid, n, out) ==
  IF fid = NOFID \/ ~Valid(t, fid) THEN (IF fid = NOFID THEN Refused(t) ELSE Unknown(t))
  ELSE IF t[fid].open # "no" THEN Refused(t)
  ELSE IF n > 0 /\ t[fid].kind # "dir" THEN Refused(t)
  ELSE IF newfid # fid /\ (newfid = NOFID \/ Valid(t, newfid)) THEN (IF newfid = NOFID THEN Refused(t) ELSE InUse(t))
  ELSE LET call == <<<<"walk", fid, newfid, t[fid].user>>>>
           shownNew == IF newfid # fid THEN {newfid} ELSE {} IN
       IF out = "err" THEN Res(Obs("implerr", call, shownNew), t)
       ELSE IF out = "partial" THEN Res(Obs("ok", call, shownNew), t)
       ELSE LET k == IF n = 0 THEN t[fid].kind ELSE (IF out = "full-dir" THEN "dir" ELSE "file") IN
            Res(Obs("ok", call, {}), [t EXCEPT ![newfid] = [kind |-> k, open |-> "no", user |-> t[fid].user]])

(* <<"open", fid, mode, out>> *)
Open(t, fid, mode, out) ==
  IF fid = NOFID THEN Refused(t)
  ELSE IF ~Valid(t, fid) THEN Unknown(t)
  ELSE IF t[fid].open # "no" THEN Refused(t)
  ELSE IF t[fid].kind = "dir" /\ mode # "OREAD" THEN Refused(t)
  ELSE IF out = "err" THEN Res(Obs("implerr", <<<<"open", fid, 0, t[fid].user>>>>, {}), t)
  ELSE Res(Obs("ok", <<<<"open", fid, 0, t[fid].user>>>>, {}), [t EXCEPT ![fid].open = OpenFor(mode)])

(* <<"create", fid, perm, mode, out>>  out in {"ok","err"}; the created object's kind follows perm *)
Create(t, fid, perm, mode, out) ==
  IF fid = NOFID THEN Refused(t)
  ELSE IF ~Valid(t, fid) THEN Unknown(t)
  ELSE IF t[fid].open # "no" THEN Refused(t)
  ELSE IF t[fid].kind # "dir" THEN Refused(t)
  ELSE IF Special(perm) /\ ~Dotu THEN Refused(t)
  ELSE IF out = "err" THEN Res(Obs("implerr", <<<<"create", fid, 0, t[fid].user>>>>, {}), t)
  ELSE Res(Obs("ok", <<<<"create", fid, 0, t[fid].user>>>>, {}),
           [t EXCEPT ![fid] = [kind |-> IF perm = "dir" THEN "dir" ELSE "file", open |-> OpenFor(mode), user |-> t[fid].user]])

(* <<"read", fid, count, out>> *)
Read(t, fid, count, out) ==
  IF fid = NOFID THEN Refused(t)
  ELSE IF ~Valid(t, fid) THEN Unknown(t)
  ELSE IF ~CountOK(count) THEN Refused(t)
  ELSE Res(Obs(IF out = "err" THEN "implerr" ELSE "ok", <<<<"read", fid, 0, t[fid].user>>>>, {}), t)

(* <<"write", fid, count, out>> *)
Write(t, fid, count, out) ==
  IF fid = NOFID THEN Refused(t)
  ELSE IF ~Valid(t, fid) THEN Unknown(t)
  ELSE IF t[fid].kind = "dir" THEN Refused(t)
  ELSE IF t[fid].open \notin (IF FixOexec THEN {"w", "rw"} ELSE {"w", "rw", "x"}) THEN Refused(t)
  ELSE IF ~CountOK(count) THEN Refused(t)
  ELSE Res(Obs(IF out = "err" THEN "implerr" ELSE "ok", <<<<"write", fid, 0, t[fid].user>>>>, {}), t)

(* <<"stat", fid, out>>  <<"wstat", fid, out>> *)
Simple(t, op, fid, out) ==
  IF fid = NOFID THEN Refused(t)
  ELSE IF ~Valid(t, fid) THEN Unknown(t)
  ELSE Res(Obs(IF out = "err" THEN "implerr" ELSE "ok", <<<<op, fid, 0, t[fid].user>>>>, {}), t)

(* <<"clunk", fid, out>>: invalid after a SUCCESSFUL clunk *)
Clunk(t, fid, out) ==
  IF fid = NOFID THEN Refused(t)
  ELSE IF ~Valid(t, fid) THEN Unknown(t)
  ELSE IF t[fid].kind = "auth"       \* answered by the framework through AuthDestroy
         THEN Res(Obs("ok", <<<<"authdestroy", fid, 0, t[fid].user>>>>, {fid}), [t EXCEPT ![fid] = Absent])
  ELSE IF out = "err" THEN Res(Obs("implerr", <<<<"clunk", fid, 0, t[fid].user>>>>, {}), t)
  ELSE Res(Obs("ok", <<<<"clunk", fid, 0, t[fid].user>>>>, {fid}), [t EXCEPT ![fid] = Absent])

(* <<"remove", fid, out>>: invalid after ANY remove *)
Remove(t, fid, out) ==
  IF fid = NOFID THEN Refused(t)
  ELSE IF ~Valid(t, fid) THEN Unknown(t)
  ELSE Res(Obs(IF out = "err" THEN "implerr" ELSE "ok", <<<<"remove", fid, 0, t[fid].user>>>>, {fid}), [t EXCEPT ![fid] = Absent])

Step(t, a) ==
  CASE a[1] = "attach" -> Attach(t, a[2], a[3], a[4], a[5], a[6])
    [] a[1] = "auth"   -> Auth(t, a[2], a[3])
    [] a[1] = "walk"   -> Walk(t, a[2], a[3], a[4], a[5])
    [] a[1] = "open"   -> Open(t, a[2], a[3], a[4])
    [] a[1] = "create" -> Create(t, a[2], a[3], a[4], a[5])
    [] a[1] = "read"   -> Read(t, a[2], a[3], a[4])
    [] a[1] = "write"  -> Write(t, a[2], a[3], a[4])
    [] a[1] = "stat"   -> Simple(t, "stat", a[2], a[3])
    [] a[1] = "wstat"  -> Simple(t, "wstat", a[2], a[3])
    [] a[1] = "clunk"  -> Clunk(t, a[2], a[3])
    [] a[1] = "remove" -> Remove(t, a[2], a[3])

FN == Fids \cup {NOFID}
OE == {"ok", "err"}
(* create modes: the directory case only with OREAD (the property is silent on other modes) *)
Acts ==
  {<<"attach", f, af, au, o, u>> : f \in FN, af \in FN, au \in (IF HasAuth THEN {"accept", "reject"} ELSE {"accept"}),
                                    o \in {"dir", "file", "err"}, u \in (IF Dotu THEN {0, 1} ELSE {0})}
  \cup {<<"auth", f, o>> : f \in FN, o \in OE}
  \cup {<<"walk", f, nf, n, o>> : f \in FN, nf \in FN, n \in {0, 2}, o \in {"full-dir", "full-file", "partial", "err"}}
  \cup {<<"open", f, m, o>> : f \in FN, m \in Modes, o \in OE}
  \cup {<<"create", f, p, m, o>> : f \in FN, p \in Perms, m \in {"OREAD", "OWRITE", "ORDWR"}, o \in OE}
  \cup {<<"read", f, c, o>> : f \in FN, c \in CountClasses, o \in OE}
  \cup {<<"write", f, c, o>> : f \in FN, c \in CountClasses \cap {"0", "lim-1", "lim", "lim+1"}, o \in OE}
  \cup {<<"stat", f, o>> : f \in FN, o \in OE}
  \cup {<<"wstat", f, o>> : f \in FN, o \in OE}
  \cup {<<"clunk", f, o>> : f \in FN, o \in OE}
  \cup {<<"remove", f, o>> : f \in FN, o \in OE}

Sensible(a) ==   \* combinations that cannot be scripted or on which the properties are silent
  /\ (a[1] = "walk" => ~(a[4] = 0 /\ a[5] \in {"partial", "full-file"}))       \* zero names: clone
  /\ (a[1] = "create" => ~(a[3] = "dir" /\ a[4] # "OREAD"))
  /\ (a[1] = "attach" => a[3] # a[2] \/ a[3] = NOFID)                       \* an attach authenticating with the fid it creates
  /\ (a[1] = "walk" => (a[3] # NOFID \/ a[2] = NOFID))                       \* NOFID as the fid to create

Init == tab = [f \in Fids |-> Absent] /\ obs = Obs("ok", <<>>, {}) /\ last = <<"none">>

(* on authentication fids only Tattach (as afid) and Tclunk are generated: the properties do not
   say how reads, writes or other requests on them are to be treated *)
OnAuthFid(a) == a[1] \in {"read", "write", "open", "create", "walk", "stat", "wstat", "remove"}
                /\ a[2] \in Fids /\ tab[a[2]].kind = "auth"

Do(a) == /\ ~OnAuthFid(a)
         /\ tab' = Step(tab, a).tab
         /\ obs' = Step(tab, a).obs
         /\ last' = a

SensibleActs == {a \in Acts : Sensible(a)}
Next == \E a \in SensibleActs : Do(a)
Spec == Init /\ [][Next]_vars

(* sanity properties of the reference machine itself *)
TypeOK == \A f \in Fids : tab[f].kind \in Kinds \cup {"none"} /\ tab[f].open \in {"no", "r", "w", "rw", "x"}
OnlyValidOpen == \A f \in Fids : tab[f].kind = "none" => tab[f].open = "no"
(* nothing is forwarded together with one of the two named refusals *)
RefusalsNotForwarded == obs.reply \in {"unknownfid", "inuse"} => obs.fwd = <<>>
(* a fid reported destroyed is invalid afterwards *)
DestroyedAreInvalid == \A f \in obs.destroyed : f \in Fids => tab[f].kind = "none"
(* abstract view used for the tour: the table only *)
View == tab
=============================================================================
