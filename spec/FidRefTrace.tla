---------------------------- MODULE FidRefTrace ----------------------------
(* Validates sequential request histories executed on the real server against the reference
   machine FidRef.  Each ndjson line is one request with what was observed:
     {"act": [...], "obs": {"reply": ..., "fwd": [[op,fid,newfid,user]...], "destroyed": [...]}}
   "Reset" lines start a new history.  A line whose observation differs from FidRef!Step is
   printed as MISMATCH with the expected observation; the rest of that history is then skipped (the
   implementation's table has left the reference, later differences would only be echoes). *)
EXTENDS FidRef, Json, IOUtils

TraceFile == IF "TRACE_FILE" \in DOMAIN IOEnv THEN IOEnv.TRACE_FILE ELSE "fidtrace.ndjson"
Trace == ndJsonDeserialize(TraceFile)

VARIABLES l, case, done, failed
tvars == <<l, case, done, failed>>

Line == Trace[l]
SeqToSet(s) == {s[i] : i \in 1..Len(s)}

(* fids this request would newly bind: a destroy notification for one of them is tolerated even when
   the implementation was never shown it (the property allows zero or one) *)
Targets(a) == CASE a[1] = "attach" -> {a[2]}
                [] a[1] = "auth" -> {a[2]}
                [] a[1] = "walk" -> IF a[3] # a[2] THEN {a[3]} ELSE {}
                [] OTHER -> {}

ObsMatches(a, exp, got) ==
  \* "refused": the property only demands an error, its text is unconstrained
  /\ IF exp.reply = "refused" THEN got.reply \in {"refused", "unknownfid", "inuse"} ELSE got.reply = exp.reply
  /\ got.fwd = exp.fwd
  /\ exp.destroyed \subseteq SeqToSet(got.destroyed)
  /\ (SeqToSet(got.destroyed) \ exp.destroyed) \subseteq (Targets(a) \ {f \in Fids : Valid(tab, f)})
  /\ Len(got.destroyed) = Cardinality(SeqToSet(got.destroyed))      \* nothing reported twice

TraceInit == Init /\ l = 1 /\ case = 0 /\ done = FALSE /\ failed = FALSE

StepLine ==
  /\ l <= Len(Trace) /\ Line.act[1] \notin {"Reset", "Leak"}
  /\ LET a == Line.act
         r == Step(tab, a) IN
     /\ failed' = (failed \/ ~ObsMatches(a, r.obs, Line.obs))
     /\ ((~failed /\ ~ObsMatches(a, r.obs, Line.obs)) =>
            PrintT("MISMATCH " \o ToJson([case |-> case, line |-> l, act |-> a, expected |-> r.obs, got |-> Line.obs,
                                            table |-> [f \in Fids |-> <<tab[f].kind, tab[f].open>>]])))
     /\ tab' = r.tab /\ obs' = r.obs /\ last' = a
  /\ l' = l + 1 /\ UNCHANGED <<case, done>>

ResetLine ==
  /\ l <= Len(Trace) /\ Line.act[1] = "Reset"
  /\ tab' = [f \in Fids |-> Absent] /\ obs' = Obs("ok", <<>>, {}) /\ last' = <<"none">>
  /\ l' = l + 1 /\ case' = Line.case /\ failed' = FALSE /\ UNCHANGED done

LeakLine ==
  /\ l <= Len(Trace) /\ Line.act[1] = "Leak"
  /\ PrintT("MISMATCH " \o ToJson([case |-> case, line |-> l, act |-> <<"Leak">>, what |-> Line.what]))
  /\ l' = l + 1 /\ UNCHANGED <<vars, case, done, failed>>

Finish == /\ l = Len(Trace) + 1 /\ ~done /\ done' = TRUE
          /\ PrintT(<<"CONSUMED", Len(Trace)>>)
          /\ UNCHANGED <<vars, l, case, failed>>

TraceNext == StepLine \/ ResetLine \/ LeakLine \/ Finish
TraceSpec == TraceInit /\ [][TraceNext]_<<vars, tvars>>
=============================================================================
