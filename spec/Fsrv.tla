-------------------------------- MODULE Fsrv --------------------------------
(* The synthetic in-memory file server of go9p (srv_file.go: type srvFile, type Fsrv) as a
   sequential reference machine.  The contract it states is written down in docs/fsrv.md; in short:

     tree     Add links a fresh node as the LAST child of a directory unless a child of that name
              exists (error, nothing linked); Remove unlinks a node from its parent (idempotent; its
              own children and the fids pointing at it are untouched, its Parent pointer is kept);
              Rename changes the name unless a sibling has it; Find is lookup by name.  Every
              linked node except the root is in exactly its parent's child list, once, and the
              forward and backward sibling links describe the same sequence.
     perm     CheckPerm(user, need) grants iff need is contained in the union of the "other" bits,
              the owner bits when the user owns the file, and the group bits when the file's group
              is one of the user's groups (this is Plan 9's lib9p hasperm(), which srv_file.go
              transcribes; it is NOT the Unix rule where the owner class excludes the others).
     walk     names resolved in order; ".." is the parent (root: itself); stepping DOWN from a
              directory requires execute permission on it; one qid per resolved name; error when
              not even the first name resolves; only a complete walk binds/moves newfid.
     open     needs read / write / read+write / execute permission for OREAD / OWRITE / ORDWR /
              OEXEC, and write permission in addition for OTRUNC; then FOpenOp, if any.
     create   needs write permission on the directory, then FCreateOp (the op links the new file).
     remove   refused for a directory with children; else FRemoveOp, then the node is unlinked.
     read     files: FReadOp gets the offset and a buffer of exactly count bytes, its result is
              the reply.  Directories: a read at offset 0 takes a snapshot of the children; each
              read returns whole stat records, a non-empty prefix of the entries not yet returned
              (empty at the end), so that a listing returns every entry exactly once.
     write    FWriteOp gets offset and data, its count is the reply.
     stat / wstat / clunk   FStatOp / FWstatOp / FClunkOp; an error of the op is the reply, and a
              failed clunk leaves the fid valid.
     destroy  FDestroyOp of the file a fid points at is told when the fid goes away.

   Step(s, a, h) gives, for state s and action tuple a, the expected observation and the successor
   state.  h is a hint taken from the observed reply where the contract leaves a choice (the number
   of directory entries returned); -1 = the maximal choice (used when TLC explores the machine).

   Error texts are not part of the contract: replies are classified "ok" / "implerr" (the scripted
   error of a file op, which must be passed through) / "err" (any other Rerror). *)
EXTENDS Integers, Sequences, FiniteSets, TLC

CONSTANTS NNodes,      \* nodes are 1..NNodes, 1 is the root directory
          Names,       \* file names used by Add / Create / Rename / Find / walks
          NFids,       \* fids are 1..NFids
          Users,       \* user ids; user u is called "u<u>" (2 characters for u < 10)
          Groups,      \* group ids; group g is called "g<g>"
          Member,      \* memberships as numbers 10*user + group
          Dotu,        \* the connection speaks 9P2000.u (stat records are 14 bytes longer)
          Modes,       \* permission words (0..511) used by add / create / chmod / wstat
          OpenModes,   \* open modes (the mode byte)
          Feat,        \* which action families TLC explores
          MaxWalk,     \* longest name list of a walk explored by TLC
          Outs,        \* scripted outcomes of file ops explored by TLC
          OpsChoices,  \* {TRUE}, {FALSE} or BOOLEAN: nodes with / without an ops object
          FixExec,     \* walking down from a directory requires execute permission (contract) / not (as found)
          FixOexec     \* OEXEC requires execute permission (contract) / nothing (as found)

Nodes == 1..NNodes
Root  == 1
Fids  == 1..NFids

VARIABLES st, obs, last
vars == <<st, obs, last>>

(* ---------------------------------------------------------------- helpers *)
Bits(x) == {b \in {1, 2, 4} : (x \div b) % 2 = 1}
PermBits(nd, u) ==
  Bits(nd.mode % 8)
  \cup (IF nd.uid = u THEN Bits((nd.mode \div 64) % 8) ELSE {})
  \cup (IF (10 * u + nd.gid) \in Member THEN Bits((nd.mode \div 8) % 8) ELSE {})
CheckPerm(nd, u, need) == Bits(need) \subseteq PermBits(nd, u)

(* wire size of the stat record of a node: size[2] type[2] dev[4] qid[13] mode[4] atime[4] mtime[4]
   length[8] name[s] uid[s] gid[s] muid[s] (+ ext[s] n_uid[4] n_gid[4] n_muid[4] in 9P2000.u);
   user and group names have two characters, muid and ext are empty *)
StatSize(name) == (IF Dotu THEN 63 ELSE 49) + Len(name) + 2 + 2

FreeNode == [st |-> "free", dir |-> FALSE, name |-> "", mode |-> 0, uid |-> 0, gid |-> 0, par |-> 0, ops |-> FALSE]
NoFid    == [n |-> 0, u |-> 0, open |-> "no", snap |-> <<>>, dpos |-> 0, doff |-> 0]

RECURSIVE SumSizes(_, _, _)
SumSizes(snap, i, j) == IF i > j THEN 0 ELSE snap[i][3] + SumSizes(snap, i + 1, j)

SeqToSet(q) == {q[i] : i \in 1..Len(q)}
Without(q, x) == SelectSeq(q, LAMBDA y : y # x)

Lookup(s, d, nm) ==
  LET S == {i \in 1..Len(s.kids[d]) : s.node[s.kids[d][i]].name = nm} IN
  IF S = {} THEN 0 ELSE s.kids[d][CHOOSE i \in S : \A j \in S : i <= j]

OpenFor(m) == CASE m % 4 = 0 -> "r" [] m % 4 = 1 -> "w" [] m % 4 = 2 -> "rw" [] OTHER -> "x"
NeedFor(m) ==   \* permission bits (4 read, 2 write, 1 exec) an open mode asks for
  LET base == CASE m % 4 = 0 -> 4 [] m % 4 = 1 -> 2 [] m % 4 = 2 -> 6 [] OTHER -> (IF FixOexec THEN 1 ELSE 0)
      trunc == (m \div 16) % 2 = 1 IN
  IF trunc /\ (base \div 2) % 2 = 0 THEN base + 2 ELSE base

(* ---------------------------------------------------------------- observations *)
Dest(any, q) == [any |-> any, seq |-> q]
NoObs == [reply |-> "ok", calls |-> <<>>, qids |-> <<>>, dest |-> Dest(FALSE, <<>>), data |-> "",
          stat |-> <<>>, ents |-> <<>>, n |-> 0, ret |-> 0]
Res(o, s) == [obs |-> o, s |-> s]
Err(s) == Res([NoObs EXCEPT !.reply = "err"], s)
Call(op, n, u, a, b, str) == <<op, n, u, a, b, str>>
StatOf(s, n) == <<n, s.node[n].name, s.node[n].mode, s.node[n].uid, s.node[n].gid, IF s.node[n].dir THEN 1 ELSE 0>>

Valid(s, f) == f \in Fids /\ s.fid[f].n # 0

(* ---------------------------------------------------------------- the srvFile API *)
LinkNode(s, n, d, name, isdir, mode, uid, gid, ops) ==
  [s EXCEPT !.node[n] = [st |-> "in", dir |-> isdir, name |-> name, mode |-> mode, uid |-> uid, gid |-> gid, par |-> d, ops |-> ops],
            !.kids[d] = Append(@, n)]

Add(s, n, d, name, isdir, mode, uid, gid, ops) ==
  IF Lookup(s, d, name) # 0 THEN Err(s)
  ELSE Res(NoObs, LinkNode(s, n, d, name, isdir, mode, uid, gid, ops))

Unlink(s, n) ==
  IF s.node[n].st # "in" \/ n = Root THEN s
  ELSE [s EXCEPT !.node[n].st = "gone", !.kids[s.node[n].par] = Without(@, n)]

RemoveApi(s, n) == Res(NoObs, Unlink(s, n))

Rename(s, n, name) ==
  IF Lookup(s, s.node[n].par, name) # 0 THEN Err(s)
  ELSE Res(NoObs, [s EXCEPT !.node[n].name = name])

Find(s, d, name) == Res([NoObs EXCEPT !.ret = Lookup(s, d, name)], s)
Chmod(s, n, mode) == Res(NoObs, [s EXCEPT !.node[n].mode = mode])
CheckPermApi(s, n, u, need) == Res([NoObs EXCEPT !.ret = IF CheckPerm(s.node[n], u, need) THEN 1 ELSE 0], s)

(* ---------------------------------------------------------------- 9P requests *)
Attach(s, f, u) ==
  IF f \notin Fids \/ Valid(s, f) THEN Err(s)
  ELSE Res([NoObs EXCEPT !.qids = <<Root>>], [s EXCEPT !.fid[f] = [NoFid EXCEPT !.n = Root, !.u = u]])

RECURSIVE WalkFrom(_, _, _, _, _)
WalkFrom(s, cur, u, names, acc) ==
  IF names = <<>> THEN [at |-> cur, q |-> acc]
  ELSE LET nm == Head(names) IN
       IF nm = ".." THEN LET p == s.node[cur].par IN WalkFrom(s, p, u, Tail(names), Append(acc, p))
       ELSE IF ~s.node[cur].dir THEN [at |-> cur, q |-> acc]
       ELSE IF FixExec /\ ~CheckPerm(s.node[cur], u, 1) THEN [at |-> cur, q |-> acc]
       ELSE LET c == Lookup(s, cur, nm) IN
            IF c = 0 THEN [at |-> cur, q |-> acc] ELSE WalkFrom(s, c, u, Tail(names), Append(acc, c))

Walk(s, f, nf, names) ==
  IF ~Valid(s, f) THEN Err(s)
  ELSE IF Len(names) > 0 /\ ~s.node[s.fid[f].n].dir THEN Err(s)
  ELSE IF s.fid[f].open # "no" THEN Err(s)
  ELSE IF nf # f /\ (nf \notin Fids \/ Valid(s, nf)) THEN Err(s)
  ELSE LET w == WalkFrom(s, s.fid[f].n, s.fid[f].u, names, <<>>) IN
       IF Len(names) > 0 /\ Len(w.q) = 0 THEN Res([NoObs EXCEPT !.reply = "err", !.dest = Dest(TRUE, <<>>)], s)
       ELSE IF Len(w.q) < Len(names) THEN Res([NoObs EXCEPT !.qids = w.q, !.dest = Dest(TRUE, <<>>)], s)
       ELSE Res([NoObs EXCEPT !.qids = w.q], [s EXCEPT !.fid[nf] = [NoFid EXCEPT !.n = w.at, !.u = s.fid[f].u]])

Open(s, f, m, out) ==
  IF ~Valid(s, f) THEN Err(s)
  ELSE LET fd == s.fid[f]  nd == s.node[fd.n] IN
  IF fd.open # "no" THEN Err(s)
  ELSE IF nd.dir /\ m # 0 THEN Err(s)
  ELSE IF ~CheckPerm(nd, fd.u, NeedFor(m)) THEN Err(s)
  ELSE LET calls == IF nd.ops THEN <<Call("open", fd.n, fd.u, m, 0, "")>> ELSE <<>> IN
       IF nd.ops /\ out = "err" THEN Res([NoObs EXCEPT !.reply = "implerr", !.calls = calls], s)
       ELSE Res([NoObs EXCEPT !.calls = calls, !.qids = <<fd.n>>], [s EXCEPT !.fid[f].open = OpenFor(m)])

(* the harness's FCreateOp links node n as name under the directory, owned by the fid's user and the
   directory's group, with the permission word of the request, and answers with Add's error if any *)
Create(s, f, n, name, isdir, perm, m, out) ==
  IF ~Valid(s, f) THEN Err(s)
  ELSE LET fd == s.fid[f]  d == fd.n  nd == s.node[d] IN
  IF fd.open # "no" \/ ~nd.dir THEN Err(s)
  ELSE IF isdir /\ m # 0 THEN Err(s)
  ELSE IF ~CheckPerm(nd, fd.u, 2) THEN Err(s)
  ELSE IF ~nd.ops THEN Err(s)
  ELSE LET calls == <<Call("create", d, fd.u, perm, IF isdir THEN 1 ELSE 0, name)>> IN
       IF out = "err" THEN Res([NoObs EXCEPT !.reply = "implerr", !.calls = calls], s)
       ELSE IF Lookup(s, d, name) # 0 THEN Res([NoObs EXCEPT !.reply = "err", !.calls = calls], s)
       ELSE LET s2 == LinkNode(s, n, d, name, isdir, perm, fd.u, nd.gid, TRUE) IN
            Res([NoObs EXCEPT !.calls = calls, !.qids = <<n>>],
                [s2 EXCEPT !.fid[f] = [NoFid EXCEPT !.n = n, !.u = fd.u, !.open = OpenFor(m)]])

(* file read: offset and count are indices into the harness's tables of offsets / counts; the op
   sees them unchanged; out = "ok": the op fills the buffer, "short": half of it, "err" *)
Read(s, f, offi, cnti, out) ==
  IF ~Valid(s, f) THEN Err(s)
  ELSE LET fd == s.fid[f]  nd == s.node[fd.n] IN
  IF ~nd.ops THEN Err(s)
  ELSE LET calls == <<Call("read", fd.n, fd.u, offi, cnti, "")>> IN
       IF out = "err" THEN Res([NoObs EXCEPT !.reply = "implerr", !.calls = calls], s)
       ELSE Res([NoObs EXCEPT !.calls = calls, !.data = IF out = "short" THEN "half" ELSE "full"], s)

Write(s, f, offi, cnti, out) ==
  IF ~Valid(s, f) THEN Err(s)
  ELSE LET fd == s.fid[f]  nd == s.node[fd.n] IN
  IF nd.dir \/ fd.open \notin {"w", "rw"} THEN Err(s)
  ELSE IF ~nd.ops THEN Err(s)
  ELSE LET calls == <<Call("write", fd.n, fd.u, offi, cnti, "")>> IN
       IF out = "err" THEN Res([NoObs EXCEPT !.reply = "implerr", !.calls = calls], s)
       ELSE Res([NoObs EXCEPT !.calls = calls, !.data = IF out = "short" THEN "half" ELSE "full"], s)

(* directory read.  restart: offset 0 (new snapshot); else the offset continues the listing *)
Snapshot(s, d) == [i \in 1..Len(s.kids[d]) |-> <<s.kids[d][i], s.node[s.kids[d][i]].name, StatSize(s.node[s.kids[d][i]].name)>>]
RECURSIVE Fit(_, _, _)
Fit(snap, pos, room) ==     \* how many whole entries after pos fit into room bytes
  IF pos >= Len(snap) \/ snap[pos + 1][3] > room THEN 0 ELSE 1 + Fit(snap, pos + 1, room - snap[pos + 1][3])

DRead(s, f, restart, count, h) ==
  IF ~Valid(s, f) THEN Err(s)
  ELSE LET fd == s.fid[f] IN
  LET snap == IF restart THEN Snapshot(s, fd.n) ELSE fd.snap
      pos  == IF restart THEN 0 ELSE fd.dpos
      off  == IF restart THEN 0 ELSE fd.doff
      kmax == Fit(snap, pos, count)
      k    == IF h >= 0 /\ h <= kmax /\ (h > 0 \/ kmax = 0) THEN h ELSE kmax
      nb   == SumSizes(snap, pos + 1, pos + k) IN
  Res([NoObs EXCEPT !.ents = [i \in 1..k |-> <<snap[pos + i][1], snap[pos + i][2]>>], !.n = nb],
      [s EXCEPT !.fid[f].snap = snap, !.fid[f].dpos = pos + k, !.fid[f].doff = off + nb])

Stat(s, f, out) ==
  IF ~Valid(s, f) THEN Err(s)
  ELSE LET fd == s.fid[f]  nd == s.node[fd.n]
           calls == IF nd.ops THEN <<Call("stat", fd.n, fd.u, 0, 0, "")>> ELSE <<>> IN
       IF nd.ops /\ out = "err" THEN Res([NoObs EXCEPT !.reply = "implerr", !.calls = calls], s)
       ELSE Res([NoObs EXCEPT !.calls = calls, !.stat = StatOf(s, fd.n)], s)

(* the harness's FWstatOp applies a new name with Rename (its error is the reply) or new permission
   bits by assignment; mode = -1 / name = "" mean "leave alone" *)
Wstat(s, f, name, mode, out) ==
  IF ~Valid(s, f) THEN Err(s)
  ELSE LET fd == s.fid[f]  nd == s.node[fd.n] IN
  IF ~nd.ops THEN Err(s)
  ELSE LET calls == <<Call("wstat", fd.n, fd.u, mode, 0, name)>> IN
       IF out = "err" THEN Res([NoObs EXCEPT !.reply = "implerr", !.calls = calls], s)
       ELSE IF name # "" THEN
              IF Lookup(s, nd.par, name) # 0 THEN Res([NoObs EXCEPT !.reply = "err", !.calls = calls], s)
              ELSE Res([NoObs EXCEPT !.calls = calls], [s EXCEPT !.node[fd.n].name = name])
       ELSE Res([NoObs EXCEPT !.calls = calls], [s EXCEPT !.node[fd.n].mode = mode])

Clunk(s, f, out) ==
  IF ~Valid(s, f) THEN Err(s)
  ELSE LET fd == s.fid[f]  nd == s.node[fd.n]
           calls == IF nd.ops THEN <<Call("clunk", fd.n, fd.u, 0, 0, "")>> ELSE <<>> IN
       IF nd.ops /\ out = "err" THEN Res([NoObs EXCEPT !.reply = "implerr", !.calls = calls], s)
       ELSE Res([NoObs EXCEPT !.calls = calls, !.dest = Dest(FALSE, IF nd.ops THEN <<fd.n>> ELSE <<>>)],
                [s EXCEPT !.fid[f] = NoFid])

(* the fid is gone after any Tremove *)
Remove(s, f, out) ==
  IF ~Valid(s, f) THEN Err(s)
  ELSE LET fd == s.fid[f]  nd == s.node[fd.n]
           gone == [s EXCEPT !.fid[f] = NoFid]
           dst == Dest(FALSE, IF nd.ops THEN <<fd.n>> ELSE <<>>) IN
       IF s.kids[fd.n] # <<>> THEN Res([NoObs EXCEPT !.reply = "err", !.dest = dst], gone)
       ELSE IF ~nd.ops THEN Res([NoObs EXCEPT !.reply = "err", !.dest = dst], gone)
       ELSE LET calls == <<Call("remove", fd.n, fd.u, 0, 0, "")>> IN
            IF out = "err" THEN Res([NoObs EXCEPT !.reply = "implerr", !.calls = calls, !.dest = dst], gone)
            ELSE Res([NoObs EXCEPT !.calls = calls, !.dest = dst], Unlink(gone, fd.n))

Step(s, a, h) ==
  CASE a[1] = "add"       -> Add(s, a[2], a[3], a[4], a[5], a[6], a[7], a[8], a[9])
    [] a[1] = "rm"        -> RemoveApi(s, a[2])
    [] a[1] = "rename"    -> Rename(s, a[2], a[3])
    [] a[1] = "find"      -> Find(s, a[2], a[3])
    [] a[1] = "chmod"     -> Chmod(s, a[2], a[3])
    [] a[1] = "checkperm" -> CheckPermApi(s, a[2], a[3], a[4])
    [] a[1] = "attach"    -> Attach(s, a[2], a[3])
    [] a[1] = "walk"      -> Walk(s, a[2], a[3], a[4])
    [] a[1] = "open"      -> Open(s, a[2], a[3], a[4])
    [] a[1] = "create"    -> Create(s, a[2], a[3], a[4], a[5], a[6], a[7], a[8])
    [] a[1] = "read"      -> Read(s, a[2], a[3], a[4], a[5])
    [] a[1] = "write"     -> Write(s, a[2], a[3], a[4], a[5])
    [] a[1] = "dread"     -> DRead(s, a[2], a[3], a[4], h)
    [] a[1] = "stat"      -> Stat(s, a[2], a[3])
    [] a[1] = "wstat"     -> Wstat(s, a[2], a[3], a[4], a[5])
    [] a[1] = "clunk"     -> Clunk(s, a[2], a[3])
    [] a[1] = "remove"    -> Remove(s, a[2], a[3])

(* ---------------------------------------------------------------- what TLC explores *)
(* Only uses of the API and of the protocol whose outcome the contract settles are generated:
   Add of a fresh node under a directory that was added before; Remove / Rename / chmod of linked
   non-root nodes; requests on valid fids that respect the fid rules of the framework (those are the
   subject of C04/C05); reads and writes through fids opened for them; directory reads that follow
   the offset rule with room for at least the next entry. *)
IsDir(s, n) == s.node[n].st # "free" /\ s.node[n].dir
Linked(s, n) == s.node[n].st = "in" /\ n # Root
FreshNodes(s) == LET F == {n \in Nodes : s.node[n].st = "free"} IN IF F = {} THEN {} ELSE {CHOOSE n \in F : \A m \in F : n <= m}

WalkLists == UNION {[1..k -> Names \cup {".."}] : k \in 0..MaxWalk}

DCounts(s, f, restart) ==    \* interesting counts for the next directory read of fid f
  LET fd == s.fid[f]
      snap == IF restart THEN Snapshot(s, fd.n) ELSE fd.snap
      pos == IF restart THEN 0 ELSE fd.dpos
      rem == Len(snap) - pos IN
  IF rem = 0 THEN {1, 200}
  ELSE LET s1 == snap[pos + 1][3] IN
       {s1, s1 + 1, 4000} \cup (IF rem >= 2 THEN {s1 + snap[pos + 2][3] - 1, s1 + snap[pos + 2][3]} ELSE {})

Enabled(s, a) ==
  CASE a[1] = "add"    -> "api" \in Feat /\ a[2] \in FreshNodes(s) /\ IsDir(s, a[3])
    [] a[1] = "rm"     -> "api" \in Feat /\ s.node[a[2]].st # "free" /\ a[2] # Root
    [] a[1] = "rename" -> "api" \in Feat /\ Linked(s, a[2]) /\ s.node[a[2]].name # a[3]
    [] a[1] = "find"   -> "find" \in Feat /\ IsDir(s, a[2])
    [] a[1] = "chmod"  -> "perm" \in Feat /\ s.node[a[2]].st = "in" /\ s.node[a[2]].mode # a[3]
    [] a[1] = "checkperm" -> "perm" \in Feat /\ s.node[a[2]].st = "in"
    [] a[1] = "attach" -> ~Valid(s, a[2])
    [] a[1] = "walk"   -> "walk" \in Feat /\ Valid(s, a[2]) /\ s.fid[a[2]].open = "no" /\ (a[3] = a[2] \/ ~Valid(s, a[3]))
                          /\ (Len(a[4]) > 0 => s.node[s.fid[a[2]].n].dir)
    [] a[1] = "open"   -> "open" \in Feat /\ Valid(s, a[2]) /\ s.fid[a[2]].open = "no" /\ (s.node[s.fid[a[2]].n].dir => a[3] = 0)
    [] a[1] = "create" -> "create" \in Feat /\ Valid(s, a[2]) /\ s.fid[a[2]].open = "no" /\ s.node[s.fid[a[2]].n].dir
                          /\ a[3] \in FreshNodes(s) /\ (a[5] => a[7] = 0)
    [] a[1] = "read"   -> "io" \in Feat /\ Valid(s, a[2]) /\ ~s.node[s.fid[a[2]].n].dir /\ s.fid[a[2]].open \in {"r", "rw"}
    [] a[1] = "write"  -> "io" \in Feat /\ Valid(s, a[2]) /\ ~s.node[s.fid[a[2]].n].dir /\ s.fid[a[2]].open \in {"w", "rw"}
    [] a[1] = "dread"  -> "dread" \in Feat /\ Valid(s, a[2]) /\ s.node[s.fid[a[2]].n].dir /\ s.fid[a[2]].open = "r"
                          /\ (~a[3] => s.fid[a[2]].doff > 0) /\ a[4] \in DCounts(s, a[2], a[3])
    [] a[1] = "stat"   -> "stat" \in Feat /\ Valid(s, a[2])
    [] a[1] = "wstat"  -> "wstat" \in Feat /\ Valid(s, a[2]) /\ s.fid[a[2]].n # Root
                          /\ s.node[s.fid[a[2]].n].st = "in" /\ s.node[s.fid[a[2]].n].name # a[3]
                          /\ s.node[s.fid[a[2]].n].mode # a[4]
    [] a[1] = "clunk"  -> Valid(s, a[2])
    [] a[1] = "remove" -> "remove" \in Feat /\ Valid(s, a[2]) /\ s.fid[a[2]].n # Root

OE == Outs \cap {"ok", "err"}
Acts ==
  {<<"add", n, d, nm, k, m, u, g, o>> : n \in Nodes \ {Root}, d \in Nodes, nm \in Names, k \in BOOLEAN, m \in Modes, u \in Users, g \in Groups, o \in OpsChoices}
  \cup {<<"rm", n>> : n \in Nodes}
  \cup {<<"rename", n, nm>> : n \in Nodes, nm \in Names}
  \cup {<<"find", d, nm>> : d \in Nodes, nm \in Names}
  \cup {<<"chmod", n, m>> : n \in Nodes, m \in Modes}
  \cup {<<"checkperm", n, u, need>> : n \in Nodes, u \in Users, need \in 1..7}
  \cup {<<"attach", f, u>> : f \in Fids, u \in Users}
  \cup {<<"walk", f, nf, w>> : f \in Fids, nf \in Fids, w \in WalkLists}
  \cup {<<"open", f, m, o>> : f \in Fids, m \in OpenModes, o \in OE}
  \cup {<<"create", f, n, nm, k, p, m, o>> : f \in Fids, n \in Nodes \ {Root}, nm \in Names, k \in BOOLEAN, p \in Modes, m \in {0, 1, 2}, o \in OE}
  \cup {<<"read", f, oi, ci, o>> : f \in Fids, oi \in 0..3, ci \in 0..2, o \in Outs}
  \cup {<<"write", f, oi, ci, o>> : f \in Fids, oi \in 0..3, ci \in 0..2, o \in Outs}
  \cup {<<"stat", f, o>> : f \in Fids, o \in OE}
  \cup {<<"wstat", f, nm, -1, o>> : f \in Fids, nm \in Names, o \in OE}
  \cup {<<"wstat", f, "", m, o>> : f \in Fids, m \in Modes, o \in OE}
  \cup {<<"clunk", f, o>> : f \in Fids, o \in OE}
  \cup {<<"remove", f, o>> : f \in Fids, o \in OE}

InitState == [node |-> [n \in Nodes |-> IF n = Root THEN [st |-> "in", dir |-> TRUE, name |-> "/", mode |-> 511, uid |-> 1, gid |-> 1, par |-> Root, ops |-> TRUE]
                                         ELSE FreeNode],
              kids |-> [n \in Nodes |-> <<>>],
              fid  |-> [f \in Fids |-> NoFid]]

Init == st = InitState /\ obs = NoObs /\ last = <<"none">>

Do(a) == /\ Enabled(st, a)
         /\ st' = Step(st, a, -1).s
         /\ obs' = Step(st, a, -1).obs
         /\ last' = a

DoRead(f, r, c) == Do(<<"dread", f, r, c>>)
(* every count DCounts can ask for, as a constant set (TLC's edge labels carry the arguments only of
   actions quantified directly under Next) *)
DCountSet == {1, 200, 4000} \cup {StatSize(x) + d : x \in Names, d \in {0, 1}}
             \cup {StatSize(x) + StatSize(y) - d : x \in Names, y \in Names, d \in {0, 1}}

Next == \/ \E a \in Acts : Do(a)
        \/ \E f \in Fids, r \in BOOLEAN, c \in DCountSet : DoRead(f, r, c)
Spec == Init /\ [][Next]_vars

(* ---------------------------------------------------------------- properties of the machine *)
TypeOK ==
  /\ \A n \in Nodes : st.node[n].st \in {"free", "in", "gone"} /\ st.node[n].mode \in 0..511
  /\ \A f \in Fids : st.fid[f].n \in Nodes \cup {0} /\ st.fid[f].open \in {"no", "r", "w", "rw", "x"}

(* every linked node except the root is in exactly its parent's child list, once; lists hold only
   linked children of that directory; unlinked and fresh nodes are in no list *)
Occurrences(q, x) == Cardinality({i \in 1..Len(q) : q[i] = x})
TreeConsistent ==
  /\ \A n \in Nodes \ {Root} : st.node[n].st = "in" =>
        /\ Occurrences(st.kids[st.node[n].par], n) = 1
        /\ \A d \in Nodes \ {st.node[n].par} : Occurrences(st.kids[d], n) = 0
  /\ \A n \in Nodes : st.node[n].st # "in" \/ n = Root => \A d \in Nodes : Occurrences(st.kids[d], n) = 0
  /\ \A d \in Nodes : st.kids[d] # <<>> => st.node[d].dir /\ st.node[d].st # "free"
  /\ st.node[Root].st = "in" /\ st.node[Root].par = Root

UniqueNames == \A d \in Nodes : \A i, j \in 1..Len(st.kids[d]) :
                  i # j => st.node[st.kids[d][i]].name # st.node[st.kids[d][j]].name

FidsSound == \A f \in Fids : st.fid[f].n # 0 => st.node[st.fid[f].n].st # "free" /\ st.fid[f].u \in Users

(* listing bookkeeping: the offset is the size of the entries returned so far, never past the snapshot *)
ListingSound == \A f \in Fids : LET fd == st.fid[f] IN
                  /\ fd.dpos <= Len(fd.snap)
                  /\ fd.doff = SumSizes(fd.snap, 1, fd.dpos)

(* a refusal or an error of a file op changes nothing but (for Tremove) the fid *)
ErrorsChangeNothing ==
  [][(obs'.reply # "ok" /\ last'[1] # "remove") => st' = st]_vars
(* a listing returns every entry of its snapshot exactly once, in order *)
ListingOnce ==
  [][(last'[1] = "dread" /\ obs'.reply = "ok") =>
       LET f == last'[2] IN
       /\ st'.fid[f].dpos = (IF last'[3] THEN 0 ELSE st.fid[f].dpos) + Len(obs'.ents)
       /\ \A i \in 1..Len(obs'.ents) : obs'.ents[i][1] = st'.fid[f].snap[st'.fid[f].dpos - Len(obs'.ents) + i][1]
       /\ (Len(obs'.ents) = 0 => IF st'.fid[f].dpos = Len(st'.fid[f].snap) THEN TRUE
                                   ELSE st'.fid[f].snap[st'.fid[f].dpos + 1][3] > last'[4])]_vars

View == st
=============================================================================
