----------------------------- MODULE FsrvTrace -----------------------------
(* Validates histories executed on the real go9p.Fsrv (directly through the srvFile API and
   through raw 9P) against the reference machine Fsrv.  One ndjson line per step:
     {"act": [...], "obs": {reply, calls, qids, destroyed, data, stat, ents, whole, n, ret},
      "post": {"probe": [[node,name,mode] per fid], "kids": [...], "kidsb": [...], "par": [...]}}
   "post" is read from the real server after the step: what every fid number answers to Tstat, and
   the child list of every node followed forwards (cfirst/next) and backwards (clast/prev), and
   every node's Parent.  A line that differs from Fsrv!Step is printed as MISMATCH with the names
   of the differing parts; the rest of that history is skipped.  {"act":["Reset"],"case":k} starts a
   new history. *)
EXTENDS Fsrv, Json, IOUtils

TraceFile == IF "TRACE_FILE" \in DOMAIN IOEnv THEN IOEnv.TRACE_FILE ELSE "fsrvtrace.ndjson"
Trace == ndJsonDeserialize(TraceFile)

VARIABLES l, case, done, failed
tvars == <<l, case, done, failed>>

Line == Trace[l]

Hint(a, got) == IF a[1] = "dread" THEN Len(got.ents) ELSE -1

(* names of the parts of the observation that differ from the expectation *)
ObsDiff(a, exp, got) ==
  (IF got.reply # exp.reply THEN <<"reply">> ELSE <<>>)
  \o (IF got.calls # exp.calls THEN <<"calls">> ELSE <<>>)
  \o (IF got.qids # exp.qids THEN <<"qids">> ELSE <<>>)
  \o (IF ~exp.dest.any /\ got.destroyed # exp.dest.seq THEN <<"destroyed">> ELSE <<>>)
  \o (IF got.data # exp.data THEN <<"data">> ELSE <<>>)
  \o (IF got.stat # exp.stat THEN <<"stat">> ELSE <<>>)
  \o (IF a[1] = "dread" /\ exp.reply = "ok" /\ got.reply = "ok" /\ ~got.whole THEN <<"whole">> ELSE <<>>)
  \o (IF got.ents # exp.ents THEN <<"ents">> ELSE <<>>)
  \o (IF got.n # exp.n THEN <<"n">> ELSE <<>>)
  \o (IF got.ret # exp.ret THEN <<"ret">> ELSE <<>>)

ProbeOf(s) == [f \in Fids |-> IF s.fid[f].n = 0 THEN <<0, "", 0>>
                               ELSE <<s.fid[f].n, s.node[s.fid[f].n].name, s.node[s.fid[f].n].mode>>]
ParOf(s) == [n \in Nodes |-> IF s.node[n].st = "free" THEN 0 ELSE s.node[n].par]

PostDiff(s, post) ==
  (IF post.probe # ProbeOf(s) THEN <<"fids">> ELSE <<>>)
  \o (IF post.kids # s.kids THEN <<"children">> ELSE <<>>)
  \o (IF post.kidsb # post.kids THEN <<"backlinks">> ELSE <<>>)
  \o (IF \E n \in Nodes : s.node[n].st # "free" /\ post.par[n] # s.node[n].par THEN <<"parent">> ELSE <<>>)

(* what the request's fid pointed at before the step (for the violation key) *)
Ctx(a) == IF a[1] \in {"add", "rm", "rename", "find", "chmod", "checkperm"} THEN <<>>
          ELSE IF a[2] \in Fids /\ st.fid[a[2]].n # 0
               THEN LET fd == st.fid[a[2]]  nd == st.node[fd.n] IN
                    <<fd.open, IF nd.dir THEN "dir" ELSE "file", nd.mode, nd.uid, nd.gid, fd.u, IF nd.ops THEN "ops" ELSE "noops">>
               ELSE <<"invalid">>

TraceInit == Init /\ l = 1 /\ case = 0 /\ done = FALSE /\ failed = FALSE

StepLine ==
  /\ l <= Len(Trace) /\ Line.act[1] \notin {"Reset", "Crash"}
  /\ IF failed THEN UNCHANGED <<vars, failed>>
     ELSE LET a == Line.act
              r == Step(st, a, Hint(a, Line.obs))
              d == ObsDiff(a, r.obs, Line.obs) \o PostDiff(r.s, Line.post) IN
          /\ failed' = (d # <<>>)
          /\ (d # <<>> => PrintT("MISMATCH " \o ToJson([case |-> case, line |-> l, act |-> a, diff |-> d,
                                   expected |-> r.obs, got |-> Line.obs,
                                   xpost |-> [probe |-> ProbeOf(r.s), kids |-> r.s.kids, par |-> ParOf(r.s)],
                                   post |-> Line.post, ctx |-> Ctx(a)])))
          /\ st' = r.s /\ obs' = r.obs /\ last' = a
  /\ l' = l + 1 /\ UNCHANGED <<case, done>>

ResetLine ==
  /\ l <= Len(Trace) /\ Line.act[1] = "Reset"
  /\ st' = InitState /\ obs' = NoObs /\ last' = <<"none">>
  /\ l' = l + 1 /\ case' = Line.case /\ failed' = FALSE /\ UNCHANGED done

Finish == /\ l = Len(Trace) + 1 /\ ~done /\ done' = TRUE
          /\ PrintT(<<"CONSUMED", Len(Trace)>>)
          /\ UNCHANGED <<vars, l, case, failed>>

TraceNext == StepLine \/ ResetLine \/ Finish
TraceSpec == TraceInit /\ [][TraceNext]_<<vars, tvars>>
=============================================================================
