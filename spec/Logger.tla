------------------------------- MODULE Logger -------------------------------
(* The message logger of go9p (/repo/log.go), property C20.

   State of the code                     here
   -----------------                     ----
   Logger.items []*Log (len = capacity)  items : sequence of entry ids, 0 = nil slot;
                                         Go index i is items[i+1]
   Logger.idx                            idx \in 0..Len(items)   (Len(items) = "wrap on next store")
   Logger.logchan (buffered, cap 16)     queue : sequence of entry ids, Len <= QCap
   fltchan / rszchan (unbuffered)        rendez-vous = the atomic actions FilterServe / Resize
   the *Log values                       ids 1,2,3... in the order of the Log calls;
                                         logged[id] = <<owner, type>>   (history variable)

   One action per iteration of doLog's select loop (Drain, FilterServe, Resize) and one for a
   completed Log call (LogCall: the channel send; it is enabled only while the channel has room,
   i.e. the caller blocks otherwise).  The three loops of doLog are transcribed literally
   (Put, FLoop, RLoop) including their termination conditions.

   LogSync is LogCall immediately followed by Drain: sequential use with quiescence after every
   Log call (what the replay engine does with synctest.Wait()); configurations with Sync = TRUE
   contain only deterministic steps and are replayed step by step on the real Logger.

   The property C20 is stated for Log and Filter only.  Resize is transcribed too (Sizes # {})
   so that TLC can say what it does to the ring; those configurations are not part of the
   verdict (see docs/logger.md). *)
EXTENDS Integers, Sequences, FiniteSets, TLC

CONSTANTS N0,         \* NewLogger(N0), N0 >= 1
          QCap,       \* capacity of logchan (16 in log.go)
          MaxLogs,    \* bound on the number of Log calls
          Owners,     \* non-nil owners, e.g. {1, 2}
          Types,      \* non-zero types, e.g. {1, 2}
          Sizes,      \* arguments of Resize ({} = no Resize)
          MaxResize,  \* bound on the number of Resize calls
          Sync,       \* TRUE: LogSync only (quiescence after each Log)
          FixResize   \* FALSE: Resize as in /repo HEAD; TRUE: as repaired by
                      \* proposed_fixes/extra-logger-resize.diff

Nil == 0              \* nil owner, nil slot; type 0 is the wildcard type

VARIABLES items, idx, queue, logged, nrs, ref
vars == <<items, idx, queue, logged, nrs, ref>>
(* ref: what a ring of the current capacity ought to hold, oldest first (reference, not code):
   Drain appends and drops the oldest beyond the capacity; Resize keeps the newest sz. *)

Filters == (Owners \cup {Nil}) \X (Types \cup {0})

-----------------------------------------------------------------------------
(* ---- the code, as operators over explicit values (reused by LoggerTrace) ---- *)

(* case it := <-l.logchan:  if l.idx >= len(l.items) { l.idx = 0 }; l.items[l.idx] = it; l.idx++ *)
Put(its, ix, e) ==
  LET i == IF ix >= Len(its) THEN 0 ELSE ix
  IN  <<[its EXCEPT ![i + 1] = e], i + 1>>

Match(lg, e, o, t) == (o = Nil \/ lg[e][1] = o) /\ (t = 0 \/ lg[e][2] = t)

(* the counting pass: for _, it := range l.items { if it == nil {continue}; if match {n++} } *)
Count(its, lg, o, t) ==
  Cardinality({i \in 1..Len(its) : its[i] # Nil /\ Match(lg, its[i], o, t)})

(* for i, m := l.idx, 0; m < len(its); i++ {
       if i >= len(l.items) { i = 0 }
       it := l.items[i]
       if it != nil && match(it) { its[m] = it; m++ } }
   acc = its[0..m-1]; fuel only makes the operator total: <<-1>> = the Go loop would not end *)
RECURSIVE FLoop(_, _, _, _, _, _, _, _)
FLoop(its, lg, o, t, n, i, acc, fuel) ==
  IF Len(acc) >= n THEN acc
  ELSE IF fuel = 0 THEN <<-1>>
  ELSE LET i1 == IF i >= Len(its) THEN 0 ELSE i
           it == its[i1 + 1]
           acc1 == IF it # Nil /\ Match(lg, it, o, t) THEN Append(acc, it) ELSE acc
       IN  FLoop(its, lg, o, t, n, i1 + 1, acc1, fuel - 1)

FilterResult(its, ix, lg, o, t) ==
  FLoop(its, lg, o, t, Count(its, lg, o, t), ix, <<>>, 2 * Len(its) + 2)

(* it := make([]*Log, sz)
   for i, j := l.idx, 0; j < len(it); j++ {
       if i >= len(l.items) { i = 0 }
       it[j] = l.items[i]
       i++
       if i == l.idx { break } }
   l.items = it; l.idx = 0 *)
RECURSIVE RLoop(_, _, _, _, _)
RLoop(its, ix, i, j, it) ==
  IF j >= Len(it) THEN it
  ELSE LET i1 == IF i >= Len(its) THEN 0 ELSE i
           it1 == [it EXCEPT ![j + 1] = its[i1 + 1]]
           i2 == i1 + 1
       IN  IF i2 = ix THEN it1 ELSE RLoop(its, ix, i2, j + 1, it1)

ResizeItems(its, ix, sz) == RLoop(its, ix, ix, 0, [k \in 1..sz |-> Nil])

(* the repaired Resize: collect the non-nil entries oldest first (from idx round the ring), keep
   the newest sz, store them from slot 0, idx = their number *)
RECURSIVE Collect(_, _, _, _)
Collect(its, i, k, acc) ==
  IF k >= Len(its) THEN acc
  ELSE LET i1 == IF i >= Len(its) THEN 0 ELSE i
       IN  Collect(its, i1 + 1, k + 1, IF its[i1 + 1] # Nil THEN Append(acc, its[i1 + 1]) ELSE acc)
ResizeFixed(its, ix, sz) ==
  LET all == Collect(its, ix, 0, <<>>)
      old == IF Len(all) > sz THEN SubSeq(all, Len(all) - sz + 1, Len(all)) ELSE all
  IN  <<[k \in 1..sz |-> IF k <= Len(old) THEN old[k] ELSE Nil], Len(old)>>

ResizeResult(its, ix, sz) ==      \* <<items, idx>> after the rszchan case
  IF FixResize THEN ResizeFixed(its, ix, sz) ELSE <<ResizeItems(its, ix, sz), 0>>

RECURSIVE DrainN(_, _, _, _)
DrainN(its, ix, q, d) ==          \* d iterations of the logchan case: <<items, idx, queue>>
  IF d = 0 THEN <<its, ix, q>>
  ELSE LET p == Put(its, ix, Head(q)) IN DrainN(p[1], p[2], Tail(q), d - 1)

(* reference ring *)
RefPut(r, cap, e) == LET a == Append(r, e)
                     IN  IF Len(a) > cap THEN SubSeq(a, Len(a) - cap + 1, Len(a)) ELSE a
RefResize(r, sz) == IF Len(r) > sz THEN SubSeq(r, Len(r) - sz + 1, Len(r)) ELSE r

-----------------------------------------------------------------------------
Init ==
  /\ items = [k \in 1..N0 |-> Nil]
  /\ idx = 0
  /\ queue = <<>>
  /\ logged = <<>>
  /\ nrs = 0
  /\ ref = <<>>

(* a Log call completes: l.logchan <- &Log{...}; it blocks while the channel is full *)
LogCall(o, t) ==
  /\ ~Sync
  /\ Len(logged) < MaxLogs
  /\ Len(queue) < QCap
  /\ logged' = Append(logged, <<o, t>>)
  /\ queue' = Append(queue, Len(logged) + 1)
  /\ UNCHANGED <<items, idx, nrs, ref>>

(* one iteration of doLog taking the logchan case *)
Drain ==
  /\ queue # <<>>
  /\ LET p == Put(items, idx, Head(queue)) IN items' = p[1] /\ idx' = p[2]
  /\ queue' = Tail(queue)
  /\ ref' = RefPut(ref, Len(items), Head(queue))
  /\ UNCHANGED <<logged, nrs>>

(* Log call followed by quiescence *)
LogSync(o, t) ==
  /\ Sync
  /\ Len(logged) < MaxLogs
  /\ queue = <<>>
  /\ logged' = Append(logged, <<o, t>>)
  /\ LET p == Put(items, idx, Len(logged) + 1) IN items' = p[1] /\ idx' = p[2]
  /\ ref' = RefPut(ref, Len(items), Len(logged) + 1)
  /\ UNCHANGED <<queue, nrs>>

(* one iteration taking the fltchan case.  The caller of Filter(o, t) receives Answer(o, t); the
   ring is not modified.  (The answer is not an action parameter because TLC prints only bound
   identifiers in action labels; LoggerTrace evaluates Answer along replayed behaviours.) *)
Answer(o, t) == FilterResult(items, idx, logged, o, t)
FilterServe(o, t) == UNCHANGED vars

(* one iteration taking the rszchan case *)
Resize(sz) ==
  /\ nrs < MaxResize
  /\ Sync => queue = <<>>
  /\ LET p == ResizeResult(items, idx, sz) IN items' = p[1] /\ idx' = p[2]
  /\ nrs' = nrs + 1
  /\ ref' = RefResize(ref, sz)
  /\ UNCHANGED <<queue, logged>>

Next ==
  \/ \E o \in Owners, t \in Types : LogCall(o, t)
  \/ \E o \in Owners, t \in Types : LogSync(o, t)
  \/ Drain
  \/ \E o \in Owners \cup {Nil}, t \in Types \cup {0} : FilterServe(o, t)
  \/ \E sz \in Sizes : Resize(sz)

(* the logger goroutine runs: it keeps taking entries from the channel *)
Spec == Init /\ [][Next]_vars /\ WF_vars(Drain)

-----------------------------------------------------------------------------
(* ---- property C20 ---- *)

TypeOK ==
  /\ Len(items) >= 1 /\ idx \in 0..Len(items)
  /\ \A k \in 1..Len(items) : items[k] \in 0..Len(logged)
  /\ Len(queue) <= QCap /\ Len(logged) <= MaxLogs

Ids(n) == [k \in 1..n |-> k]

(* what the property says about one Filter(o, t) result r, given the history lg of Log calls (in
   call order; ids = positions) and the capacity cap: only logged entries that match, in log
   order, without duplicates, without skipping a matching entry between two returned ones, at
   most cap *)
SoundLogged(r, lg, o, t)  == \A k \in 1..Len(r) : r[k] \in 1..Len(lg)
SoundMatch(r, lg, o, t)   == \A k \in 1..Len(r) : r[k] \in 1..Len(lg) => Match(lg, r[k], o, t)
SoundNoDup(r)             == \A j, k \in 1..Len(r) : j # k => r[j] # r[k]
SoundOrder(r)             == \A k \in 1..Len(r) - 1 : r[k] <= r[k + 1]
SoundNoSkip(r, lg, o, t)  == \A k \in 1..Len(r) - 1 :
                               \A e \in (r[k] + 1)..(r[k + 1] - 1) : e \in 1..Len(lg) => ~Match(lg, e, o, t)
SoundCap(r, cap)          == Len(r) <= cap
Sound(r, lg, cap, o, t) ==
  /\ SoundLogged(r, lg, o, t) /\ SoundMatch(r, lg, o, t) /\ SoundNoDup(r) /\ SoundOrder(r)
  /\ SoundNoSkip(r, lg, o, t) /\ SoundCap(r, cap)

(* the matching entries among the cap most recent of the first n logged *)
Expected(lg, n, cap, o, t) ==
  SelectSeq(Ids(n), LAMBDA e : e > n - cap /\ Match(lg, e, o, t))

FilterTerminates ==
  \A f \in Filters : FilterResult(items, idx, logged, f[1], f[2]) # <<-1>>

FilterSound ==
  \A f \in Filters : Sound(FilterResult(items, idx, logged, f[1], f[2]), logged, Len(items), f[1], f[2])

Converges ==
  queue = <<>> =>
    \A f \in Filters : FilterResult(items, idx, logged, f[1], f[2])
                         = Expected(logged, Len(logged), Len(items), f[1], f[2])

(* stronger model fact (not part of C20): at any moment the result is the window ending at the
   last drained entry *)
WindowAtDrained ==
  \A f \in Filters : FilterResult(items, idx, logged, f[1], f[2])
                       = Expected(logged, Len(logged) - Len(queue), Len(items), f[1], f[2])

(* with Resize: the ring holds what a ring of the current capacity ought to hold *)
RefWindow ==
  \A f \in Filters : FilterResult(items, idx, logged, f[1], f[2])
                       = SelectSeq(ref, LAMBDA e : Match(logged, e, f[1], f[2]))

(* NoBlock: Filter is served in every state (FilterServe has no guard and its loop ends:
   FilterTerminates); a Log call is always eventually served: the channel always eventually has
   room while the goroutine runs (WF on Drain), and everything logged reaches the ring *)
NoBlockLog == []<>(Len(queue) < QCap)
Settles    == <>[](queue = <<>>)
=============================================================================
