---------------------------- MODULE LoggerTrace ----------------------------
(* Trace validation / prediction for Logger (property C20).

   The ndjson file (IOEnv.TRACE_FILE) concatenates cases; every line is one call that RETURNED on
   the real go9p.Logger, issued by one goroutine, in program order:

     {"ev":"Reset","case":k,"cap":N,"cls":"lf"|"rs"}   NewLogger(N); cls "rs" = case uses Resize
     {"ev":"Log","o":o,"t":t}                         Log(id, owner o, type t), id = 1,2,... per case
     {"ev":"LogSync","o":o,"t":t}                     Log followed by quiescence (synctest.Wait)
     {"ev":"Quiet"}                                   synctest.Wait(): the channel is empty
     {"ev":"Filter","o":o,"t":t,"res":[ids]}          Filter(o, t) returned the entries with these ids
     {"ev":"Filter","o":o,"t":t}                      no result: TLC PREDICTS it (spec -> code replay)
     {"ev":"Resize","sz":n}                           Resize(n), preceded by quiescence

   The logger goroutine is not observable: Drain steps are silent and TLC infers them.  The
   validation is lazy: the specification state drains only as many queued entries as the next line
   needs (room in the channel for a Log; the least d such that the Filter answer after d more Drain
   steps equals the observed result).  This is complete without branching because Drain commutes
   with everything the caller can observe later: a state that has drained less can always catch
   up, so if any assignment of Drain steps explains the trace, the lazy one does.

   Output (PrintT):
     <<"PRED", case, line, result>>      predicted Filter result (lines without "res")
     <<"PROPVIOL", case, line, cls, S>>  the OBSERVED result breaks the clauses S of C20
                                         (Logger!Sound / Converges evaluated on the observation and
                                         the history of Log lines; independent of the model state)
     <<"REJECT", case, line, ev>>        no number of Drain steps explains the observed result
                                         (implementation and model disagree: drift, not a verdict)
     <<"CONSUMED", n>>                   all n lines were read *)
EXTENDS Logger, Json, IOUtils

TraceFile == IF "TRACE_FILE" \in DOMAIN IOEnv THEN IOEnv.TRACE_FILE ELSE "trace.ndjson"
Trace == ndJsonDeserialize(TraceFile)

VARIABLES l, failed, case, cls, done
tvars == <<l, failed, case, cls, done>>

Line == Trace[l]

TraceInit == Init /\ l = 1 /\ failed = FALSE /\ case = 0 /\ cls = "lf" /\ done = FALSE

Apply(s) == items' = s[1] /\ idx' = s[2] /\ queue' = s[3]

(* ---- the property, evaluated on an observed result ---- *)
FailedClauses(r, o, t, quiet) ==
  {c \in {"logged", "match", "dup", "order", "skip", "cap", "converge"} :
     CASE c = "logged" -> ~SoundLogged(r, logged, o, t)
       [] c = "match"  -> ~SoundMatch(r, logged, o, t)
       [] c = "dup"    -> ~SoundNoDup(r)
       [] c = "order"  -> ~SoundOrder(r)
       [] c = "skip"   -> ~SoundNoSkip(r, logged, o, t)
       [] c = "cap"    -> ~SoundCap(r, Len(items))
       [] c = "converge" -> quiet /\ cls = "lf"
                            /\ r # Expected(logged, Len(logged), Len(items), o, t)}

Judge(r, o, t, quiet) ==
  LET F == FailedClauses(r, o, t, quiet)
  IN  IF F = {} THEN TRUE ELSE PrintT(<<"PROPVIOL", case, l, cls, F>>)

(* ---- steps ---- *)
ResetStep ==
  /\ Line.ev = "Reset"
  /\ items' = [k \in 1..Line.cap |-> Nil] /\ idx' = 0 /\ queue' = <<>> /\ logged' = <<>>
  /\ nrs' = 0 /\ ref' = <<>>
  /\ failed' = FALSE /\ case' = Line.case /\ cls' = Line.cls

LogStep(sync) ==
  /\ logged' = Append(logged, <<Line.o, Line.t>>)
  /\ IF failed THEN UNCHANGED <<items, idx, queue>>
     ELSE LET d0 == IF Len(queue) >= QCap THEN Len(queue) - QCap + 1 ELSE 0
              s0 == DrainN(items, idx, queue, d0)
              q1 == Append(s0[3], Len(logged) + 1)
          IN  IF sync THEN Apply(DrainN(s0[1], s0[2], q1, Len(q1)))
              ELSE Apply(<<s0[1], s0[2], q1>>)
  /\ UNCHANGED <<nrs, ref, failed, case, cls>>

QuietStep ==
  /\ IF failed THEN UNCHANGED <<items, idx, queue>>
     ELSE Apply(DrainN(items, idx, queue, Len(queue)))
  /\ UNCHANGED <<logged, nrs, ref, failed, case, cls>>

After(d) == DrainN(items, idx, queue, d)
Explains(d, o, t, r) == LET s == After(d) IN FilterResult(s[1], s[2], logged, o, t) = r

FilterStep ==
  LET o == Line.o
      t == Line.t
  IN
  IF "res" \notin DOMAIN Line
  THEN (* prediction: quiescent replay, the answer of the model in the drained state *)
       LET s == After(Len(queue)) IN
       /\ PrintT(<<"PRED", case, l, FilterResult(s[1], s[2], logged, o, t)>>)
       /\ Apply(s)
       /\ UNCHANGED <<logged, nrs, ref, failed, case, cls>>
  ELSE LET r == Line.res IN
       /\ Judge(r, o, t, ~failed /\ queue = <<>>)
       /\ IF failed THEN UNCHANGED <<items, idx, queue, failed>>
          ELSE IF \E d \in 0..Len(queue) : Explains(d, o, t, r)
               THEN LET d == CHOOSE d \in 0..Len(queue) :
                                Explains(d, o, t, r) /\ \A e \in 0..(d - 1) : ~Explains(e, o, t, r)
                    IN  Apply(After(d)) /\ UNCHANGED failed
               ELSE /\ PrintT(<<"REJECT", case, l, "Filter">>)
                    /\ failed' = TRUE /\ UNCHANGED <<items, idx, queue>>
       /\ UNCHANGED <<logged, nrs, ref, case, cls>>

ResizeStep ==
  /\ IF failed
     THEN items' = [k \in 1..Line.sz |-> Nil] /\ UNCHANGED <<idx, queue>>     \* only Len(items) is used
     ELSE LET s == After(Len(queue))
              p == ResizeResult(s[1], s[2], Line.sz)
          IN  items' = p[1] /\ idx' = p[2] /\ queue' = <<>>
  /\ UNCHANGED <<logged, nrs, ref, failed, case, cls>>

Step ==
  /\ l <= Len(Trace)
  /\ CASE Line.ev = "Reset"   -> ResetStep
       [] Line.ev = "Log"     -> LogStep(FALSE)
       [] Line.ev = "LogSync" -> LogStep(TRUE)
       [] Line.ev = "Quiet"   -> QuietStep
       [] Line.ev = "Filter"  -> FilterStep
       [] Line.ev = "Resize"  -> ResizeStep
  /\ l' = l + 1 /\ UNCHANGED done

Finish == /\ l = Len(Trace) + 1 /\ ~done /\ PrintT(<<"CONSUMED", Len(Trace)>>)
          /\ done' = TRUE /\ UNCHANGED <<vars, l, failed, case, cls>>

TraceNext == Step \/ Finish
TraceSpec == TraceInit /\ [][TraceNext]_<<vars, tvars>>
=============================================================================
