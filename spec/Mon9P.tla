------------------------------- MODULE Mon9P -------------------------------
(* Property monitors for one server connection, evaluated by TLC over the EXTERNALLY observed
   history of the real server: T-messages sent, R-messages read from the wire (decoded by the
   independent decoder), the invocation log of the scripted implementation (call / answer /
   destroy / opened / closed), quiescence markers with the set of requests the driver is holding
   inside the implementation, fid probes, leftover goroutines.

   Nothing here refers to the internals of the server, so a refactoring that keeps the observable
   behaviour cannot raise an alarm.  The input is an ndjson file normalised to a fixed schema (see
   lib/srvfam.py normalise_ext); cases are separated by "reset" lines.  Each broken property
   instance is printed as  <<"VERDICT", case, property, kind, detail>>. *)
EXTENDS Integers, Sequences, FiniteSets, TLC, Json, IOUtils

ExtFile == IF "EXT_FILE" \in DOMAIN IOEnv THEN IOEnv.EXT_FILE ELSE "ext.ndjson"
Ext == ndJsonDeserialize(ExtFile)

RespOf == [Tversion |-> "Rversion", Tauth |-> "Rauth", Tattach |-> "Rattach", Tflush |-> "Rflush",
           Twalk |-> "Rwalk", Topen |-> "Ropen", Tcreate |-> "Rcreate", Tread |-> "Rread",
           Twrite |-> "Rwrite", Tclunk |-> "Rclunk", Tremove |-> "Rremove", Tstat |-> "Rstat",
           Twstat |-> "Rwstat"]

VARIABLES i,         \* next line
          case,
          sent,      \* sequence of T records (index = arrival number n)
          replied,   \* n -> number of replies matched to it
          away,      \* set of n flushed away (Rflush seen before any reply): cancelled
          answers,   \* n -> set of payloads the implementation produced for n
          called,    \* sequence of n in invocation order
          answeredN, \* set of n the implementation has answered
          live,      \* fid numbers currently shown to the implementation and not destroyed
          maybe,     \* fid numbers a request may have created without showing them
          nclosed, cclosed,
          dseen,     \* clunk/remove requests that have seen their fid reported destroyed
          done

mvars == <<i, case, sent, replied, away, answers, called, answeredN, live, maybe, nclosed, cclosed, dseen, done>>

E == Ext[i]

Verdict(prop, kind, detail) == PrintT("VERDICT " \o ToString(<<case, prop, kind, detail>>))

Fresh ==
  /\ sent' = <<>> /\ replied' = <<>> /\ away' = {} /\ answers' = <<>> /\ called' = <<>>
  /\ answeredN' = {} /\ live' = {} /\ maybe' = {} /\ nclosed' = 0 /\ cclosed' = FALSE /\ dseen' = {}

Init ==
  /\ i = 1 /\ case = 0 /\ done = FALSE
  /\ sent = <<>> /\ replied = <<>> /\ away = {} /\ answers = <<>> /\ called = <<>>
  /\ answeredN = {} /\ live = {} /\ maybe = {} /\ nclosed = 0 /\ cclosed = FALSE /\ dseen = {}

N == Len(sent)
IsFlush(n) == sent[n].type = "Tflush"
(* requests that could be answered by an R-message with this tag: sent, not replied, not flushed away *)
Outstanding(tag) == {n \in 1..N : sent[n].tag = tag /\ replied[n] = 0 /\ n \notin away}
Min(S) == CHOOSE x \in S : \A y \in S : x <= y

(* ---- T ---- *)
OnT ==
  /\ sent' = Append(sent, E)
  /\ replied' = Append(replied, 0)
  /\ answers' = Append(answers, {})
  /\ maybe' = maybe \cup (IF E.type = "Tattach" THEN {E.fid}
                          ELSE IF E.type = "Twalk" /\ E.newfid # E.fid THEN {E.newfid}
                          ELSE IF E.type = "Tauth" THEN {E.afid} ELSE {})
  /\ UNCHANGED <<away, called, answeredN, live, nclosed, cclosed, dseen>>

(* ---- R ---- *)
AwayWithTag(tag) == {n \in 1..N : sent[n].tag = tag /\ n \in away /\ replied[n] = 0}
Max(S) == CHOOSE x \in S : \A y \in S : x >= y

(* the request an R-message with this tag answers: the oldest outstanding one; failing that, a
   request that was flushed away (the reply is then late: a C07 verdict, but it is still accounted
   to that request so that its consequences are not reported a second time under another name) *)
OnR ==
  LET cands0 == Outstanding(E.tag)
      late  == AwayWithTag(E.tag)
      \* a reply carrying a payload the implementation produced for a request that was flushed / aborted away, while a
      \* NEW request reuses the tag: the client takes it for the answer to the new request.  It is accounted to the old one.
      staleFor == {m \in late : E.payload > 0 /\ E.payload \in answers[m]}
      stale == cands0 # {} /\ staleFor # {} /\ ~(E.payload \in answers[Min(cands0)])
      cands == IF stale THEN {} ELSE cands0 IN
  IF E.bad # ""
    THEN /\ Verdict("C03", "undecodable-reply", E.bad)
         /\ UNCHANGED <<sent, replied, away, answers, called, answeredN, live, maybe, nclosed, cclosed, dseen>>
  ELSE IF cands = {} /\ late = {}
    THEN /\ IF \E n \in 1..N : sent[n].tag = E.tag /\ replied[n] > 0
              THEN Verdict("C03", "second-reply", <<E.tag, E.type>>)
              ELSE Verdict("C03", "reply-without-request", <<E.tag, E.type>>)
         /\ UNCHANGED <<sent, replied, away, answers, called, answeredN, live, maybe, nclosed, cclosed, dseen>>
  ELSE LET n == IF stale THEN Max(staleFor) ELSE IF cands # {} THEN Min(cands) ELSE Max(late)
           t == sent[n].type
           okType == E.type = RespOf[t] \/ E.type = "Rerror"
           \* content: a payload-carrying reply must carry a payload the implementation produced for n;
           \* framework errors (fw) and payload-less replies are exempt
           okPayload == \/ E.fw
                        \/ E.payload = 0
                        \/ E.payload \in answers[n]
           \* a success reply of a type only the implementation produces needs an implementation answer
           okSource == \/ E.type \in {"Rerror", "Rflush", "Rversion"}
                       \/ answers[n] # {}
           flushedNow == IF t = "Tflush" /\ E.type = "Rflush"
                           THEN {m \in 1..(n-1) : sent[m].tag = sent[n].oldtag /\ replied[m] = 0 /\ m \notin away}
                         ELSE IF t = "Tversion" /\ E.type = "Rversion"
                           \* a Tversion aborts everything outstanding: those requests get no reply any more
                           THEN {m \in 1..(n-1) : replied[m] = 0 /\ m \notin away}
                           ELSE {} IN
       /\ ((cands = {}) => Verdict("C07", "reply-after-rflush", <<n, t, E.type>>))
       \* ... and once the client has read the Rflush the old tag has no outstanding request any more (C03)
       /\ ((cands = {}) => Verdict("C03", "reply-after-rflush", <<n, t, E.type>>))
       /\ (stale => Verdict("C03", "late-reply-under-reused-tag", <<n, t, E.type>>))
       \* C04: the destruction of a fid is reported no later than the reply that invalidates it
       \* (judged only when no other unanswered request names that fid: one in progress legitimately keeps it alive)
       /\ (((t = "Tclunk" /\ E.type = "Rclunk") \/ t = "Tremove") /\ n \notin dseen /\ answers[n] # {}
            /\ ~(\E m \in 1..N : m # n /\ replied[m] = 0 /\ sent[n].fid \in {sent[m].fid, sent[m].newfid, sent[m].afid})
              => Verdict("C04", "reply-before-destroy", <<n, t, E.type>>))
       /\ (~okType => Verdict("C03", "wrong-reply-type", <<n, t, E.type>>))
       /\ ((okType /\ ~okPayload) => Verdict("C03", "foreign-payload", <<n, t, E.type, E.payload>>))
       /\ ((okType /\ okPayload /\ ~okSource) => Verdict("C03", "reply-not-from-implementation", <<n, t, E.type>>))
       /\ replied' = [replied EXCEPT ![n] = 1]
       /\ away' = away \cup flushedNow
       /\ UNCHANGED <<sent, answers, called, answeredN, live, maybe, nclosed, cclosed, dseen>>

(* ---- implementation log ---- *)
OnCall ==
  /\ (E.n \in away => Verdict("C07", "call-after-cancel", <<E.n, E.op>>))
  \* shared tag: an earlier request of the same tag must have been answered before this one is executed
  /\ ((\E m \in 1..(E.n - 1) : /\ sent[m].tag = sent[E.n].tag /\ ~IsFlush(m) /\ ~IsFlush(E.n)
                               /\ m \in {called[k] : k \in 1..Len(called)}      \* handed to the implementation ...
                               /\ m \notin answeredN /\ m \notin away /\ replied[m] = 0)  \* ... and still there
        => Verdict("C08", "taggroup-overlap", <<E.n, sent[E.n].tag>>))
  /\ called' = Append(called, E.n)
  \* only a call that shows a NEW fid makes it live (attach: fid; walk to a new fid: newfid); an
  \* operation on a fid already destroyed at the disconnect does not resurrect it
  /\ LET made == (IF E.op = "attach" THEN {E.fid} ELSE IF E.op = "walk" /\ E.newfid # E.fid THEN {E.newfid} ELSE {}) \ {-1} IN
     /\ live' = live \cup made
     /\ maybe' = maybe \ made
  /\ UNCHANGED <<sent, replied, away, answers, answeredN, nclosed, cclosed, dseen>>

OnAnswer ==
  /\ answers' = [answers EXCEPT ![E.n] = @ \cup {E.payload}]
  /\ answeredN' = answeredN \cup {E.n}
  /\ UNCHANGED <<sent, replied, away, called, live, maybe, nclosed, cclosed, dseen>>

OnDestroy ==
  /\ IF E.fid \in live THEN /\ live' = live \ {E.fid} /\ maybe' = maybe \ {E.fid}
     ELSE IF E.fid \in maybe THEN /\ maybe' = maybe \ {E.fid} /\ UNCHANGED live
     ELSE /\ Verdict(IF cclosed THEN "C11" ELSE "C04", "double-destroy", <<E.fid, IF cclosed THEN "after-disconnect" ELSE "connected">>)
          /\ UNCHANGED <<live, maybe>>
  /\ dseen' = dseen \cup {m \in 1..N : replied[m] = 0 /\ sent[m].fid = E.fid /\ sent[m].type \in {"Tclunk", "Tremove"}}
  /\ UNCHANGED <<sent, replied, away, answers, called, answeredN, nclosed, cclosed>>

OnClosed ==
  /\ (nclosed >= 1 => Verdict("C11", "closed-twice", nclosed + 1))
  /\ nclosed' = nclosed + 1
  /\ UNCHANGED <<sent, replied, away, answers, called, answeredN, live, maybe, cclosed, dseen>>

OnCClose == /\ cclosed' = TRUE
            /\ UNCHANGED <<sent, replied, away, answers, called, answeredN, live, maybe, nclosed, dseen>>

(* ---- quiescence with the connection open: E.held = requests the driver keeps in the implementation,
        E.parked = schedule points still occupied (none expected other than the held calls) ---- *)
Held == {E.held[k] : k \in 1..Len(E.held)}
WaitsLegitimately(n) ==
  \/ n \in Held
  \/ n \in away
  \* a request queued behind an unanswered earlier request of the same tag that waits legitimately
  \/ \E m \in 1..(n-1) : sent[m].tag = sent[n].tag /\ replied[m] = 0 /\ m \in Held
  \* a flush whose target is still in the implementation (answered only when the target is)
  \/ (IsFlush(n) /\ \E m \in 1..(n-1) : sent[m].tag = sent[n].oldtag /\ replied[m] = 0 /\ m \in Held)
  \* a request left unanswered by the implementation on purpose (late answer pending)
  \/ (n \in {called[k] : k \in 1..Len(called)} /\ n \notin answeredN)
  \/ (IsFlush(n) /\ \E m \in 1..(n-1) : sent[m].tag = sent[n].oldtag /\ replied[m] = 0
                                        /\ m \in {called[k] : k \in 1..Len(called)} /\ m \notin answeredN)

OnQuiet ==
  /\ ~cclosed =>
       \A n \in 1..N :
         (replied[n] = 0 /\ ~WaitsLegitimately(n)) =>
            IF IsFlush(n) THEN Verdict("C07", "flush-unanswered", <<n, sent[n].oldtag>>) /\ Verdict("C03", "unanswered", <<n, sent[n].type>>)
            ELSE IF Held # {} THEN Verdict("C08", "delayed-by-held", <<n, sent[n].type, Held>>)
            ELSE Verdict("C03", "unanswered", <<n, sent[n].type>>)
  /\ UNCHANGED <<sent, replied, away, answers, called, answeredN, live, maybe, nclosed, cclosed, dseen>>

(* ---- fid probe after quiescence: E.fid, E.valid; the monitor only judges fids whose history in
        this case is a single cancelled request (CancelLeavesNothing) ---- *)
Creates(n, f) == \/ sent[n].type = "Tattach" /\ sent[n].fid = f
                 \/ sent[n].type = "Twalk" /\ sent[n].newfid = f /\ sent[n].newfid # sent[n].fid
OnProbe ==
  /\ LET f == E.fid
         creators == {n \in 1..N : Creates(n, f)}
         clunkers == {n \in 1..N : sent[n].type \in {"Tclunk", "Tremove"} /\ sent[n].fid = f} IN
     /\ ((creators # {} /\ creators \subseteq away /\ clunkers = {} /\ E.valid /\ ~E.initial)
           => Verdict("C07", "cancelled-request-left-fid", <<f, creators>>))
     /\ ((E.initial /\ creators = {} /\ clunkers # {} /\ clunkers \subseteq away /\ ~E.valid)
           => Verdict("C07", "cancelled-clunk-took-effect", <<f, clunkers>>))
  /\ UNCHANGED <<sent, replied, away, answers, called, answeredN, live, maybe, nclosed, cclosed, dseen>>

(* ---- end of case: after the disconnect and after everything that can run has run ---- *)
OnEnd ==
  /\ (cclosed /\ nclosed # 1) => Verdict("C11", "closed-count", nclosed)
  /\ (cclosed /\ live # {}) => Verdict("C11", "fid-not-destroyed", live)
  /\ (cclosed /\ live # {}) => Verdict("C04", "fid-never-destroyed", live)
  /\ (Len(E.parked) > 0) => Verdict("C11", "stuck-after-disconnect", E.parked)
  /\ UNCHANGED <<sent, replied, away, answers, called, answeredN, live, maybe, nclosed, cclosed, dseen>>

OnCrash ==   \* the server process panicked while serving this case: nothing outstanding is answered
  /\ Verdict("C06", "server-crash", E.what)
  /\ Verdict("C03", "server-crash", E.what)
  \* ... after the client of this case had disconnected: the teardown took every other connection down with it
  /\ (E.closed => Verdict("C11", "server-crash-after-disconnect", E.what))
  /\ UNCHANGED <<sent, replied, away, answers, called, answeredN, live, maybe, nclosed, cclosed, dseen>>

OnFlushopMissing ==   \* a Tflush found its target being worked on by an implementation that has a FlushOp, and did not call it:
                      \* an implementation that answers a blocked request only when told to give it up never answers
  /\ Verdict("C07", "flushop-not-invoked", E.n)
  /\ UNCHANGED <<sent, replied, away, answers, called, answeredN, live, maybe, nclosed, cclosed, dseen>>

OnStall ==   \* the server never became quiescent: a goroutine waits for a lock another one holds across a schedule
             \* point or an implementation call (or spins) -- requests are being delayed by an unrelated one
  /\ Verdict("C08", "stalled", E.what)
  \* ... after the client of this case had disconnected: its teardown holds up everybody else
  /\ (E.closed => Verdict("C11", "stalled-after-disconnect", E.what))
  /\ UNCHANGED <<sent, replied, away, answers, called, answeredN, live, maybe, nclosed, cclosed, dseen>>

OnBystander ==   \* a request on another connection, driven with this connection's goroutines paused
  /\ (~E.ok => Verdict(IF cclosed THEN "C11" ELSE "C08", "bystander-disturbed", E.what))
  /\ UNCHANGED <<sent, replied, away, answers, called, answeredN, live, maybe, nclosed, cclosed, dseen>>

OnInitFid == /\ live' = live \cup {E.fid}
             /\ UNCHANGED <<sent, replied, away, answers, called, answeredN, maybe, nclosed, cclosed, dseen>>

OnLeftover ==
  /\ Verdict("C11", "goroutines-left", E.what)
  /\ UNCHANGED <<sent, replied, away, answers, called, answeredN, live, maybe, nclosed, cclosed, dseen>>

Skip == UNCHANGED <<sent, replied, away, answers, called, answeredN, live, maybe, nclosed, cclosed, dseen>>

Next ==
  \/ /\ i <= Len(Ext)
     /\ i' = i + 1 /\ UNCHANGED done
     /\ IF E.ev = "reset" THEN Fresh /\ case' = E.case
        ELSE /\ UNCHANGED case
             /\ CASE E.ev = "T" -> OnT
                  [] E.ev = "R" -> OnR
                  [] E.ev = "call" -> OnCall
                  [] E.ev = "answer" -> OnAnswer
                  [] E.ev = "destroy" -> OnDestroy
                  [] E.ev = "closed" -> OnClosed
                  [] E.ev = "cclose" -> OnCClose
                  [] E.ev = "quiet" -> OnQuiet
                  [] E.ev = "probe" -> OnProbe
                  [] E.ev = "end" -> OnEnd
                  [] E.ev = "leftover" -> OnLeftover
                  [] E.ev = "crash" -> OnCrash
                  [] E.ev = "initfid" -> OnInitFid
                  [] E.ev = "bystander" -> OnBystander
                  [] E.ev = "stall" -> OnStall
                  [] E.ev = "flushop-missing" -> OnFlushopMissing
                  [] OTHER -> Skip
  \/ /\ i = Len(Ext) + 1 /\ ~done /\ done' = TRUE
     /\ PrintT(<<"CONSUMED", Len(Ext)>>)
     /\ UNCHANGED <<i, case, sent, replied, away, answers, called, answeredN, live, maybe, nclosed, cclosed, dseen>>

Spec == Init /\ [][Next]_mvars
=============================================================================
