-------------------------------- MODULE Nego --------------------------------
(* Version / msize negotiation of one server connection (property C12) and of the client's Connect.

   State: the connection's msize and dialect, whether the connection is still alive, and the reply
   buffers that exist (the server recycles reply Fcalls: a buffer allocated before the negotiation
   keeps its old, larger capacity -- modelled by `pool`; FixClip says the tree clips a recycled
   buffer to the negotiated msize).

   Sizes are plain integers; values >= 2^31 are represented by Huge. *)
EXTENDS Integers, Sequences, FiniteSets, TLC

CONSTANTS SrvMsizes,   \* configured server msize values
          CliMsizes,   \* msize values a client announces
          Versions,    \* version strings a client sends
          Needs,       \* sizes of replies the implementation tries to send after negotiation
          Announce,    \* frame sizes a client announces in a header
          FixClip,     \* recycled reply buffers are clipped to the negotiated msize
          MaxSteps

IOHDRSZ == 24
Huge == 2147483647
Min(a, b) == IF a < b THEN a ELSE b

VARIABLES smsize, sdotu,      \* server configuration (chosen initially)
          msize, dotu,        \* connection state
          alive,
          pool,               \* capacities of recycled reply buffers
          out,                \* frames written by the server: [size, kind]
          last,               \* observation of the last step
          steps

vars == <<smsize, sdotu, msize, dotu, alive, pool, out, last, steps>>

Init ==
  /\ smsize \in SrvMsizes /\ sdotu \in BOOLEAN
  /\ msize = smsize /\ dotu = sdotu
  /\ alive = TRUE /\ pool = <<>> /\ out = <<>> /\ steps = 0
  /\ last = [type |-> "none", msize |-> 0, version |-> ""]

(* a reply of `need` bytes is packed into a buffer: a recycled one if available, else a fresh one of
   the current msize; if it does not fit, an Rerror 'buffer too small' is sent instead *)
TakeBuf == IF pool # <<>> THEN (IF FixClip THEN Min(Head(pool), msize) ELSE Head(pool)) ELSE msize
RestPool == IF pool # <<>> THEN Tail(pool) ELSE pool
Send(need, kind) ==
  LET cap == TakeBuf
      sz == IF need <= cap THEN need ELSE Min(cap, 7 + 2 + 16 + (IF dotu THEN 4 ELSE 0)) IN
  /\ out' = Append(out, [size |-> sz, kind |-> IF need <= cap THEN kind ELSE "Rerror", msize |-> msize'])
  /\ pool' = Append(RestPool, cap)

(* Tversion(m, v): refused below IOHDRSZ; else msize := min, dialect := both asked *)
Version(m, v) ==
  /\ alive /\ steps < MaxSteps
  /\ IF m < IOHDRSZ
       THEN /\ last' = [type |-> "Rerror", msize |-> 0, version |-> ""]
            /\ UNCHANGED <<msize, dotu>>
            /\ Send(7 + 2 + 15 + (IF dotu THEN 4 ELSE 0), "Rerror")
       ELSE /\ msize' = Min(m, msize)
            /\ dotu' = (v = "9P2000.u" /\ sdotu)
            /\ last' = [type |-> "Rversion", msize |-> Min(m, msize), version |-> IF v = "9P2000.u" /\ sdotu THEN "9P2000.u" ELSE "9P2000"]
            /\ Send(7 + 4 + 2 + (IF v = "9P2000.u" /\ sdotu THEN 8 ELSE 6), "Rversion")
  /\ steps' = steps + 1
  /\ UNCHANGED <<smsize, sdotu, alive>>

(* any later reply the implementation produces, needing n bytes *)
Reply(n) ==
  /\ alive /\ steps < MaxSteps
  /\ UNCHANGED <<msize, dotu>>
  /\ Send(n, "R")
  /\ last' = [type |-> "R", msize |-> msize, version |-> ""]
  /\ steps' = steps + 1
  /\ UNCHANGED <<smsize, sdotu, alive>>

(* a header announcing a frame of s bytes *)
Header(s) ==
  /\ alive /\ steps < MaxSteps
  /\ IF s > msize \/ s < 7
       THEN /\ alive' = FALSE /\ last' = [type |-> "dropped", msize |-> msize, version |-> ""]
       ELSE /\ UNCHANGED alive /\ last' = [type |-> "accepted", msize |-> msize, version |-> ""]
  /\ steps' = steps + 1
  /\ UNCHANGED <<smsize, sdotu, msize, dotu, pool, out>>

Next == \/ \E m \in CliMsizes, v \in Versions : Version(m, v)
        \/ \E n \in Needs : Reply(n)
        \/ \E s \in Announce : Header(s)
Spec == Init /\ [][Next]_vars

(* ---- properties ---- *)
FrameWithinMsize == \A i \in 1..Len(out) : out[i].size <= out[i].msize
MsizeOnlyShrinks == msize <= smsize
MsizeCarriesHeader == msize >= IOHDRSZ
DialectNeedsBoth == dotu => sdotu
TypeOK == msize \in 0..Huge /\ alive \in BOOLEAN
=============================================================================
