------------------------------ MODULE NegoTrace ------------------------------
(* Validates negotiation sessions recorded from the real server (and from the real client's Connect)
   against Nego.  Lines:
     {"act":"reset","case":k,"smsize":S,"sdotu":b}
     {"act":"version","m":M,"v":V,"obs":{"type":"Rversion"|"Rerror","msize":..,"version":..}}
     {"act":"frame","size":n,"kind":"Rstat"...}      a frame the server wrote afterwards
     {"act":"header","s":n,"obs":"dropped"|"accepted"|"executed"}
     {"act":"session","msize":n,"dotu":b}            a fresh connection negotiated to these values
     {"act":"connect","cm":M,"cdotu":b,"rm":RM,"rv":RV,"obs":{"msize":..,"dotu":..}}   client side
   Mismatches are printed as MISMATCH json. *)
EXTENDS Integers, Sequences, TLC, Json, IOUtils

TraceFile == IF "TRACE_FILE" \in DOMAIN IOEnv THEN IOEnv.TRACE_FILE ELSE "nego.ndjson"
Trace == ndJsonDeserialize(TraceFile)
IOHDRSZ == 24
Min(a, b) == IF a < b THEN a ELSE b

VARIABLES l, case, smsize, sdotu, msize, dotu, alive, done
vars == <<l, case, smsize, sdotu, msize, dotu, alive, done>>
Line == Trace[l]

Init == l = 1 /\ case = 0 /\ smsize = 0 /\ sdotu = FALSE /\ msize = 0 /\ dotu = FALSE /\ alive = TRUE /\ done = FALSE

Bad(what, exp) == PrintT("MISMATCH " \o ToJson([case |-> case, line |-> l, what |-> what, expected |-> exp, got |-> Line]))

OnReset == /\ case' = Line.case /\ smsize' = Line.smsize /\ sdotu' = Line.sdotu
           /\ msize' = Line.smsize /\ dotu' = Line.sdotu /\ alive' = TRUE

OnVersion ==
  LET m == Line.m  v == Line.v IN
  IF m < IOHDRSZ
    THEN /\ (Line.obs.type # "Rerror" => Bad("msize below IOHDRSZ must be refused", [type |-> "Rerror"]))
         /\ UNCHANGED <<case, smsize, sdotu, msize, dotu, alive>>
    ELSE LET nm == Min(m, msize)
             nd == (v = "9P2000.u" /\ sdotu)
             ver == IF nd THEN "9P2000.u" ELSE "9P2000" IN
         /\ ((Line.obs.type # "Rversion" \/ Line.obs.msize # nm \/ Line.obs.version # ver)
               => Bad("Rversion", [type |-> "Rversion", msize |-> nm, version |-> ver]))
         /\ msize' = nm /\ dotu' = nd /\ UNCHANGED <<case, smsize, sdotu, alive>>

OnFrame ==
  /\ ((Line.size > msize) => Bad("frame longer than the negotiated msize", [msize |-> msize]))
  /\ ((Line.dialect # "") /\ (Line.dialect = "u") # dotu => Bad("reply not in the negotiated dialect", [dotu |-> dotu]))
  /\ ((Line.dialect = "?") /\ ~dotu => Bad("reply in neither dialect", [dotu |-> dotu]))
  /\ ((Line.count >= 0 /\ Line.data > Line.count) => Bad("more data than the Tread asked for", [count |-> Line.count]))
  /\ UNCHANGED <<case, smsize, sdotu, msize, dotu, alive>>

OnHeader ==
  LET bad == Line.s > msize \/ Line.s < 7 IN
  /\ ((bad /\ Line.obs # "dropped") => Bad("illegal frame size must drop the connection", [obs |-> "dropped"]))
  /\ ((~bad /\ Line.obs = "dropped") => Bad("legal frame size must not drop the connection", [obs |-> "accepted"]))
  /\ alive' = (Line.obs # "dropped") /\ UNCHANGED <<case, smsize, sdotu, msize, dotu>>

OnSession ==   \* a fresh connection negotiated to (msize, dotu): the lines that follow refer to it
  /\ msize' = Line.msize /\ dotu' = Line.dotu /\ alive' = TRUE /\ UNCHANGED <<case, smsize, sdotu>>

OnConnect ==   \* the client adopts min(msize) and the dialect only if both sides asked
  LET em == Min(Line.cm, Line.rm)
      ed == (Line.rv = "9P2000.u" /\ Line.cdotu) IN
  /\ ((Line.obs.msize # em \/ Line.obs.dotu # ed) => Bad("Connect", [msize |-> em, dotu |-> ed]))
  /\ UNCHANGED <<case, smsize, sdotu, msize, dotu, alive>>

Next ==
  \/ /\ l <= Len(Trace) /\ l' = l + 1 /\ UNCHANGED done
     /\ CASE Line.act = "reset" -> OnReset
          [] Line.act = "version" -> OnVersion
          [] Line.act = "frame" -> OnFrame
          [] Line.act = "header" -> OnHeader
          [] Line.act = "connect" -> OnConnect
          [] Line.act = "session" -> OnSession
          [] OTHER -> UNCHANGED <<case, smsize, sdotu, msize, dotu, alive>>
  \/ /\ l = Len(Trace) + 1 /\ ~done /\ done' = TRUE /\ PrintT(<<"CONSUMED", Len(Trace)>>)
     /\ UNCHANGED <<l, case, smsize, sdotu, msize, dotu, alive>>
Spec == Init /\ [][Next]_vars
=============================================================================
