-------------------------------- MODULE Pipefs --------------------------------
(* The file server Pipefs of go9p (srv_pipe.go) as one 9P client sees it, as a sequential reference
   machine: requests are issued one at a time.  docs/pipefs.md is the prose version.

   Pipefs exports a real directory tree, but the *data* of a file never reaches the tree: every fid
   has a byte buffer of its own.  Twrite appends the bytes to the buffer of the fid it came through
   and answers their number; Tread on anything that is not a directory removes min(count, length of
   the buffer) bytes from the front of that fid's buffer and returns them.  So a fid is a FIFO queue:
   every byte written through a fid is read back through that fid, exactly once, in order; the
   offset of a read or write means nothing.  Two fids on the same file share nothing.

   State.  fs maps every canonical path (a sequence of Names, at most MaxDepth long; <<>> is the
   root) to a node [k: "none" | "dir" | "file" | "sym", id, tgt].  id is the identity of the object
   (hard links: two paths, one id).  Ids are kept canonical: objects are numbered 1, 2, ... in the
   order in which a depth-first listing of the tree with sorted names meets them first, so the ids
   are a function of the tree (the harness numbers the inodes it finds the same way).  Names are
   sorted by length: the check uses names whose alphabetical order is their order by length.  The
   target of a symbolic link is a name, resolved in the link's own directory.  fid maps a fid
   number to [used, path (the *raw* path: the names as they were walked, symbolic links inside it
   unresolved, exactly the string srv_pipe.go keeps), ty (the type the framework remembers from the
   last qid), open, omode, file (the fid holds an open os.File), data (the buffer), snap (the packed
   listing kept by the last directory read at offset 0: <<name, size, kind>> per entry)].  leak
   counts files the server dropped without closing them (FileDropped below).

   Step(s, a, h) gives the expected observation and the successor state of action tuple a in state
   s.  h is a hint taken from the observed behaviour where the code leaves a choice: the order in
   which the host lists a directory.

   The machine follows what srv_pipe.go and the framework in srv_fcall.go DO.  Where that is not
   what one would expect of a 9P file server it is named here:
     ReadNeedsNoOpen     Tread is served on a fid that was never opened, or opened write-only; a
                         directory read at offset 0 through an unopened fid opens the directory and
                         the fid keeps that file
     OffsetIgnored       the offset of a Tread/Twrite on a non-directory is ignored
     CreateExistingOpens Tcreate of a plain file on an existing name opens the existing file
                         (O_CREATE without O_EXCL), through a symbolic link also its target, and a
                         dangling link's target is created
     PipeCreatesNothing  Tcreate with DMNAMEDPIPE creates nothing: it opens an existing file of that
                         name or fails
     SocketIsPlainFile   Tcreate with DMSOCKET creates a plain file
     LinkStays           Tcreate with DMLINK whose new name cannot be opened (a link to a dangling
                         symbolic link) answers Rerror but leaves the link
     StaleType           the framework's idea of a fid's type is the qid it last saw, the server
                         looks at the path again on every request: they differ after the object at
                         the path was replaced
     OmodeOnFailure      a Topen/Tcreate that srv_pipe.go refuses has already recorded its mode
     WindowNotEntries    a directory read returns the bytes [offset, offset+count) of the packed
                         listing, cutting stat records wherever the window ends (Ufs returns whole
                         records)
     BufferSurvives      the buffer and the listing of a fid survive Tcreate and an in-place walk
     FileDropped         Topen/Tcreate through a fid that already holds a file (ReadNeedsNoOpen) replace
                         that file without closing it: its descriptor stays open until the garbage
                         collector finalizes it (st.leak counts them, saturating at 3)
   Three behaviours are defects and the constants Fix* select between the repaired behaviour (TRUE,
   what the check expects) and the code as found (FALSE, kept so that TLC can show the difference):
     FixDirPast   a directory read at an offset beyond the listing (also: at an offset > 0 before
                  any read at offset 0) returns no data; as found it evaluates
                  dirents[offset:offset+0] and the server dies ("crash")
     FixWalk      a partial walk leaves the fid alone; as found an in-place partial walk moves it
     FixDangling  creating a symbolic link succeeds once the link exists; as found a link whose
                  target cannot be opened is answered with Rerror and stays
   (A fourth defect needs two requests in progress and is outside this sequential machine: Tcreate
   with DMLINK naming a fid that a Twalk in progress is still setting up; see docs/pipefs.md.) *)
EXTENDS Integers, Sequences, FiniteSets, TLC

CONSTANTS Names,       \* file names
          MaxDepth,    \* longest canonical path
          NFids,       \* fids are 1..NFids
          Dotu,        \* the connection speaks 9P2000.u
          Msize,       \* negotiated message size; IOHDRSZ = 24
          StatBase,    \* size of a stat record minus the name (and the link target in 9P2000.u)
          Feat,        \* which action families TLC explores
          Kinds,       \* kinds of Tcreate explored
          OpenModes,   \* open modes explored
          WData,       \* strings written
          RCounts,     \* counts of FIFO reads explored
          MaxBuf,      \* buffers and per-fid write histories explored up to this length
          MaxWalk,     \* longest name list of a walk explored
          Hist,        \* keep the per-fid histories of written and read bytes (model checking only)
          FixDirPast, FixWalk, FixDangling

Fids == 1..NFids
IOHDRSZ == 24
Bad == <<"!">>       \* "no such path"; "!" is not a name

VARIABLES st, obs, last
vars == <<st, obs, last>>

(* ---------------------------------------------------------------- paths and the tree *)
RECURSIVE PathsOfLen(_)
PathsOfLen(d) == IF d = 0 THEN {<<>>} ELSE {Append(p, n) : p \in PathsOfLen(d - 1), n \in Names}
Paths == UNION {PathsOfLen(d) : d \in 0..MaxDepth}

Front(p) == SubSeq(p, 1, Len(p) - 1)
Last(p) == p[Len(p)]
Min(a, b) == IF a < b THEN a ELSE b

NoNode == [k |-> "none", id |-> 0, tgt |-> ""]
NodeAt(s, p) == IF p \in DOMAIN s.fs THEN s.fs[p] ELSE NoNode
Fuel == Cardinality(Names) + 1     \* a chain of links within one directory is a loop if longer

(* the object a canonical path leads to when symbolic links at its END are followed (open(2)) *)
RECURSIVE Follow(_, _, _)
Follow(s, p, n) ==
  IF p = Bad THEN Bad
  ELSE LET nd == NodeAt(s, p) IN
       IF nd.k = "none" THEN Bad
       ELSE IF nd.k # "sym" THEN p
       ELSE IF n = 0 \/ nd.tgt \notin Names THEN Bad
       ELSE Follow(s, Append(Front(p), nd.tgt), n - 1)

(* the canonical path of a raw path: links in all but the last element followed (lstat(2)) *)
RECURSIVE Canon(_, _)
Canon(s, p) ==
  IF p = <<>> THEN <<>>
  ELSE LET d == Follow(s, Canon(s, Front(p)), Fuel) IN
       IF d = Bad THEN Bad
       ELSE IF NodeAt(s, d).k # "dir" THEN Bad
       ELSE Append(d, Last(p))

Lstat(s, p) == NodeAt(s, Canon(s, p))
Target(s, p) == Follow(s, Canon(s, p), Fuel)

(* where open(O_CREAT) of canonical path p ends up: the first missing name along the links, or
   the object they lead to; Bad for a loop *)
RECURSIVE CreateTarget(_, _, _)
CreateTarget(s, p, n) ==
  LET nd == NodeAt(s, p) IN
  IF nd.k # "sym" THEN p
  ELSE IF n = 0 \/ nd.tgt \notin Names THEN Bad
  ELSE CreateTarget(s, Append(Front(p), nd.tgt), n - 1)

Kids(s, d) == {n \in Names : NodeAt(s, Append(d, n)).k # "none"}

(* canonical ids: depth-first order, names sorted by length *)
RECURSIVE SortByLen(_)
SortByLen(S) == IF S = {} THEN <<>>
                ELSE LET x == CHOOSE x \in S : \A y \in S : Len(x) <= Len(y) IN <<x>> \o SortByLen(S \ {x})
NameSeq == SortByLen(Names)
RECURSIVE DFS(_)
RECURSIVE DFSKids(_, _)
DFS(p) == <<p>> \o (IF Len(p) < MaxDepth THEN DFSKids(p, 1) ELSE <<>>)
DFSKids(p, i) == IF i > Len(NameSeq) THEN <<>> ELSE DFS(Append(p, NameSeq[i])) \o DFSKids(p, i + 1)
PathSeq == DFS(<<>>)
NewId == 1000000      \* the id of an object until the tree is renumbered
Renumber(fs) ==
  LET live == SelectSeq(PathSeq, LAMBDA p : fs[p].k # "none")
      first(id) == CHOOSE i \in 1..Len(live) : fs[live[i]].id = id /\ \A j \in 1..(i - 1) : fs[live[j]].id # id
      rank(id) == Cardinality({fs[live[j]].id : j \in 1..first(id)}) IN
  [p \in DOMAIN fs |-> IF fs[p].k = "none" THEN NoNode ELSE [fs[p] EXCEPT !.id = rank(fs[p].id)]]

Q(nd) == <<nd.id, nd.k>>

(* wire size of the stat record of a node called name *)
StatSize(name, nd) == StatBase + Len(name) + (IF Dotu /\ nd.k = "sym" THEN Len(nd.tgt) ELSE 0)

(* open flags: OREAD 0, OWRITE 1, ORDWR 2, OEXEC 3 (opens read-only), OTRUNC 16 *)
WriteOrTrunc(m) == (m % 4) \in {1, 2} \/ (m \div 16) % 2 = 1
CanWrite(m) == (m % 4) \in {1, 2}
OpenOK(s, t, m) == t # Bad /\ (NodeAt(s, t).k = "dir" => ~WriteOrTrunc(m))     \* EISDIR

(* ---------------------------------------------------------------- fids and observations *)
NoFid == [used |-> FALSE, path |-> <<>>, ty |-> "file", open |-> FALSE, omode |-> 0, file |-> FALSE,
          data |-> "", snap |-> <<>>, wl |-> "", rl |-> ""]
Valid(s, f) == f \in Fids /\ s.fid[f].used

NoObs == [reply |-> "ok", qids |-> <<>>, n |-> 0, data |-> "", stat |-> <<>>, snap |-> <<>>, ids |-> <<>>, ents |-> <<>>]
Res(o, s) == [obs |-> o, s |-> s]
Err(s) == Res([NoObs EXCEPT !.reply = "err"], s)
Unspec(s) == Res([NoObs EXCEPT !.reply = "any"], s)   \* outside what the machine describes: never explored, never judged
Crash(s) == Res([NoObs EXCEPT !.reply = "crash"], s)  \* the server process dies (only with FixDirPast = FALSE)

NameOf(p) == IF p = <<>> THEN "root" ELSE Last(p)

(* ---------------------------------------------------------------- requests *)
(* aname empty: Root; else aname is taken as the path (here: the root or a path below it) *)
Attach(s, f, usean, p, afid) ==
  IF f \notin Fids \/ s.fid[f].used THEN Err(s)
  ELSE IF afid # 0 THEN Err(s)                         \* unknown afid, or "no authentication required"
  ELSE LET path == IF usean THEN p ELSE <<>>
           nd == Lstat(s, path) IN
       IF nd.k = "none" THEN Err(s)
       ELSE Res([NoObs EXCEPT !.qids = <<Q(nd)>>],
                [s EXCEPT !.fid[f] = [NoFid EXCEPT !.used = TRUE, !.path = path, !.ty = nd.k]])

RECURSIVE WalkFrom(_, _, _, _)
WalkFrom(s, path, names, acc) ==
  IF names = <<>> THEN [at |-> path, q |-> acc]
  ELSE LET p == Append(path, Head(names))
           nd == Lstat(s, p) IN
       IF nd.k = "none" THEN [at |-> path, q |-> acc]
       ELSE WalkFrom(s, p, Tail(names), Append(acc, Q(nd)))

Walk(s, f, nf, names) ==
  IF ~Valid(s, f) THEN Err(s)
  ELSE LET fd == s.fid[f] IN
  IF Len(names) > 0 /\ fd.ty # "dir" THEN Err(s)
  ELSE IF fd.open THEN Err(s)
  ELSE IF nf # f /\ (nf \notin Fids \/ s.fid[nf].used) THEN Err(s)
  ELSE IF Lstat(s, fd.path).k = "none" THEN Err(s)
  ELSE LET w == WalkFrom(s, fd.path, names, <<>>) IN
       IF Len(names) > 0 /\ Len(w.q) = 0 THEN Err(s)
       ELSE IF Len(w.q) < Len(names)
            THEN Res([NoObs EXCEPT !.qids = w.q],
                     IF FixWalk \/ nf # f THEN s ELSE [s EXCEPT !.fid[f].path = w.at])   \* as found: moved, type kept
       ELSE LET ty == IF Len(names) = 0 THEN fd.ty ELSE w.q[Len(w.q)][2] IN
            Res([NoObs EXCEPT !.qids = w.q],
                IF nf = f THEN [s EXCEPT !.fid[f].path = w.at, !.fid[f].ty = ty]          \* BufferSurvives
                ELSE [s EXCEPT !.fid[nf] = [NoFid EXCEPT !.used = TRUE, !.path = w.at, !.ty = ty]])

Open(s, f, m) ==
  IF ~Valid(s, f) THEN Err(s)
  ELSE LET fd == s.fid[f] IN
  IF fd.open THEN Err(s)
  ELSE IF fd.ty = "dir" /\ m # 0 THEN Err(s)
  ELSE LET s1 == [s EXCEPT !.fid[f].omode = m]         \* OmodeOnFailure
           nd == Lstat(s, fd.path) IN
       IF nd.k = "none" THEN Err(s1)
       ELSE IF ~OpenOK(s, Target(s, fd.path), m)          \* the failed OpenFile has already replaced the fid's file by nil
            THEN Res([NoObs EXCEPT !.reply = "err"], [s1 EXCEPT !.fid[f].file = FALSE, !.leak = IF fd.file THEN Min(@ + 1, 3) ELSE @])
       ELSE Res([NoObs EXCEPT !.qids = <<Q(nd)>>], [s1 EXCEPT !.fid[f].open = TRUE, !.fid[f].file = TRUE,
                                                           !.leak = IF fd.file THEN Min(@ + 1, 3) ELSE @])   \* FileDropped

(* kind: "file" "dir" "sym" (target tgt) "link" (to the file fid lf points at; lf = 0: Ext is not
   a number) "pipe" "dev" "sock" *)
Create(s, f, name, kind, m, tgt, lf) ==
  IF ~Valid(s, f) THEN Err(s)
  ELSE LET fd == s.fid[f] IN
  IF fd.open THEN Err(s)
  ELSE IF fd.ty # "dir" THEN Err(s)
  ELSE IF kind = "dir" /\ m # 0 THEN Err(s)
  ELSE IF kind \in {"sym", "link", "pipe", "dev", "sock"} /\ ~Dotu THEN Err(s)
  ELSE LET s1 == [s EXCEPT !.fid[f].omode = m]         \* OmodeOnFailure
           d  == Target(s, fd.path) IN                 \* the directory the new name goes into
       IF Lstat(s, fd.path).k = "none" THEN Err(s1)
       ELSE IF kind = "dev" THEN Err(s1)
       ELSE IF d = Bad THEN Err(s1)
       ELSE IF NodeAt(s, d).k # "dir" THEN Err(s1)     \* StaleType: ENOTDIR
       ELSE LET np  == Append(d, name)
                raw == Append(fd.path, name)
                cur == NodeAt(s, np)
                Done(s2, hasfile) ==
                  Res([NoObs EXCEPT !.qids = <<Q(NodeAt(s2, np))>>],
                      [s2 EXCEPT !.fid[f] = [fd EXCEPT !.path = raw, !.ty = NodeAt(s2, np).k, !.open = TRUE,
                                                       !.omode = m, !.file = hasfile],
                                 !.leak = IF fd.file THEN Min(@ + 1, 3) ELSE @])                           \* FileDropped
                Put(p, nd) == [s1 EXCEPT !.fs = Renumber([s.fs EXCEPT ![p] = nd])] IN
            IF np \notin DOMAIN s.fs THEN Unspec(s)    \* deeper than the machine describes
            ELSE CASE kind = "dir" ->
                        IF cur.k # "none" THEN Err(s1)
                        ELSE Done(Put(np, [k |-> "dir", id |-> NewId, tgt |-> ""]), TRUE)
                   [] kind = "sym" ->
                        IF cur.k # "none" THEN Err(s1)
                        ELSE LET s2 == Put(np, [k |-> "sym", id |-> NewId, tgt |-> tgt]) IN
                             IF OpenOK(s2, Follow(s2, np, Fuel), m) THEN Done(s2, TRUE)
                             ELSE IF FixDangling THEN Done(s2, FALSE)
                             ELSE Res([NoObs EXCEPT !.reply = "err"], s2)         \* as found: refused, link stays
                   [] kind = "link" ->
                        IF lf \notin Fids THEN Err(s1)
                        ELSE IF ~s.fid[lf].used THEN Err(s1)
                        ELSE LET src == Lstat(s, s.fid[lf].path) IN
                             IF src.k \in {"none", "dir"} \/ cur.k # "none" THEN Err(s1)
                             ELSE LET s2 == Put(np, src) IN
                                  IF OpenOK(s2, Follow(s2, np, Fuel), m) THEN Done(s2, TRUE)
                                  ELSE Res([NoObs EXCEPT !.reply = "err"], s2)    \* LinkStays
                   [] kind = "pipe" ->                                            \* PipeCreatesNothing
                        IF OpenOK(s, Follow(s, np, Fuel), m) THEN Done(s1, TRUE) ELSE Err(s1)
                   [] OTHER ->                                                    \* "file", "sock": CreateExistingOpens
                        LET c == CreateTarget(s, np, Fuel) IN
                        IF c = Bad THEN Err(s1)
                        ELSE IF NodeAt(s, c).k = "none" THEN Done(Put(c, [k |-> "file", id |-> NewId, tgt |-> ""]), TRUE)
                        ELSE IF NodeAt(s, c).k = "dir" THEN Err(s1)
                        ELSE Done(s1, TRUE)

(* Tread on what is not a directory: the front of the fid's buffer *)
Read(s, f, off, cnt) ==
  IF ~Valid(s, f) THEN Err(s)
  ELSE IF cnt > Msize - IOHDRSZ THEN Err(s)
  ELSE LET fd == s.fid[f]
           nd == Lstat(s, fd.path) IN
       IF nd.k = "none" THEN Err(s)
       ELSE IF nd.k = "dir" THEN Unspec(s)             \* written as "dread"
       ELSE LET n == Min(cnt, Len(fd.data))
                got == SubSeq(fd.data, 1, n) IN
            Res([NoObs EXCEPT !.n = n, !.data = got],
                [s EXCEPT !.fid[f].data = SubSeq(fd.data, n + 1, Len(fd.data)),
                          !.fid[f].rl = IF Hist THEN @ \o got ELSE @])

(* the directory branch of Pipefs.Read.  DirSlice transcribes the switch that computes count and
   the slice expression dirents[offset : offset+count]: <<lo, hi>>, or <<>> where the repaired code
   answers without slicing.  total = len(dirents).  An offset that does not fit TLC's integers is
   written as a negative number and is beyond every listing. *)
Past(off, total) == off < 0 \/ off > total
DirSlice(total, off, cnt) ==
  IF Past(off, total) THEN (IF FixDirPast THEN <<>>                                   \* count = 0
                            ELSE IF off < 0 THEN <<total + 1, total + 1>> ELSE <<off, off + 0>>)
  ELSE IF total - off > cnt THEN <<off, off + cnt>>
  ELSE <<off, total>>
InBounds(sl, total) == sl = <<>> \/ (0 <= sl[1] /\ sl[1] <= sl[2] /\ sl[2] <= total)

RECURSIVE SumSizes(_, _, _)
SumSizes(snap, i, j) == IF i > j THEN 0 ELSE snap[i][2] + SumSizes(snap, i + 1, j)
Total(snap) == SumSizes(snap, 1, Len(snap))
(* the entries of the listing that lie entirely inside the window [off, off+n) *)
WholeIn(snap, off, n) ==
  LET idx == SelectSeq([i \in 1..Len(snap) |-> i],
                       LAMBDA i : off <= SumSizes(snap, 1, i - 1) /\ SumSizes(snap, 1, i) <= off + n) IN
  [k \in 1..Len(idx) |-> snap[idx[k]][1]]

RECURSIVE SetToSeq(_)
SetToSeq(S) == IF S = {} THEN <<>> ELSE LET x == CHOOSE x \in S : TRUE IN <<x>> \o SetToSeq(S \ {x})
IsPerm(q, S) == Len(q) = Cardinality(S) /\ {q[i] : i \in 1..Len(q)} = S
Listing(s, d, order) == [i \in 1..Len(order) |->
                           LET nd == NodeAt(s, Append(d, order[i])) IN <<order[i], StatSize(order[i], nd), nd.k>>]
ListingIds(s, d, order) == [i \in 1..Len(order) |-> NodeAt(s, Append(d, order[i])).id]

NoHint == [use |-> FALSE, order |-> <<>>]

DRead(s, f, off, cnt, h) ==
  IF ~Valid(s, f) THEN Err(s)
  ELSE IF cnt > Msize - IOHDRSZ THEN Err(s)
  ELSE LET fd == s.fid[f]
           nd == Lstat(s, fd.path) IN
       IF nd.k = "none" THEN Err(s)
       ELSE IF nd.k # "dir" THEN Unspec(s)             \* written as "read"
       ELSE IF off = 0 /\ WriteOrTrunc(fd.omode)       \* StaleType + OmodeOnFailure: the reopen fails (EISDIR)
            THEN Res([NoObs EXCEPT !.reply = "err"], [s EXCEPT !.fid[f].file = FALSE])
       ELSE LET d == Canon(s, fd.path)
                order == IF h.use /\ IsPerm(h.order, Kids(s, d)) THEN h.order ELSE SetToSeq(Kids(s, d))
                snap == IF off = 0 THEN Listing(s, d, order) ELSE fd.snap
                s1 == IF off = 0 THEN [s EXCEPT !.fid[f].snap = snap, !.fid[f].file = TRUE] ELSE s   \* ReadNeedsNoOpen
                total == Total(snap)
                sl == DirSlice(total, off, cnt) IN
            IF ~InBounds(sl, total) THEN Crash(s1)
            ELSE LET n == IF sl = <<>> THEN 0 ELSE sl[2] - sl[1] IN
                 Res([NoObs EXCEPT !.n = n, !.snap = snap, !.ids = IF off = 0 THEN ListingIds(s, d, order) ELSE <<>>,
                                   !.ents = IF n = 0 THEN <<>> ELSE WholeIn(snap, off, n)], s1)

Write(s, f, w) ==
  IF ~Valid(s, f) THEN Err(s)
  ELSE LET fd == s.fid[f] IN
  IF ~fd.open \/ fd.ty = "dir" \/ ~CanWrite(fd.omode) THEN Err(s)
  ELSE IF Len(w) > Msize - IOHDRSZ THEN Err(s)
  ELSE IF Lstat(s, fd.path).k = "none" THEN Err(s)
  ELSE Res([NoObs EXCEPT !.n = Len(w)],
           [s EXCEPT !.fid[f].data = @ \o w, !.fid[f].wl = IF Hist THEN @ \o w ELSE @])

(* FidDestroy closes the file; the buffer goes with the fid *)
Clunk(s, f) ==
  IF ~Valid(s, f) THEN Err(s) ELSE Res(NoObs, [s EXCEPT !.fid[f] = NoFid])

(* the fid is gone after any Tremove *)
Remove(s, f) ==
  IF ~Valid(s, f) THEN Err(s)
  ELSE LET fd == s.fid[f]
           gone == [s EXCEPT !.fid[f] = NoFid]
           c == Canon(s, fd.path)
           nd == NodeAt(s, c) IN
       IF nd.k = "none" THEN Res([NoObs EXCEPT !.reply = "err"], gone)
       ELSE IF c = <<>> THEN Unspec(s)
       ELSE IF nd.k = "dir" /\ Kids(s, c) # {} THEN Res([NoObs EXCEPT !.reply = "err"], gone)
       ELSE Res(NoObs, [gone EXCEPT !.fs = Renumber([s.fs EXCEPT ![c] = NoNode])])

Stat(s, f) ==
  IF ~Valid(s, f) THEN Err(s)
  ELSE LET nd == Lstat(s, s.fid[f].path) IN
       IF nd.k = "none" THEN Err(s)
       ELSE Res([NoObs EXCEPT !.stat = <<NameOf(s.fid[f].path), nd.k, nd.id>>], s)

Wstat(s, f) == Err(s)                                  \* always Eperm

Step(s, a, h) ==
  CASE a[1] = "attach" -> Attach(s, a[2], a[3], a[4], a[5])
    [] a[1] = "walk"   -> Walk(s, a[2], a[3], a[4])
    [] a[1] = "open"   -> Open(s, a[2], a[3])
    [] a[1] = "create" -> Create(s, a[2], a[3], a[4], a[5], a[6], a[7])
    [] a[1] = "read"   -> Read(s, a[2], a[3], a[4])
    [] a[1] = "dread"  -> DRead(s, a[2], a[3], a[4], h)
    [] a[1] = "write"  -> Write(s, a[2], a[3])
    [] a[1] = "clunk"  -> Clunk(s, a[2])
    [] a[1] = "remove" -> Remove(s, a[2])
    [] a[1] = "stat"   -> Stat(s, a[2])
    [] a[1] = "wstat"  -> Wstat(s, a[2])

(* ---------------------------------------------------------------- what TLC explores *)
WalkLists == UNION {[1..k -> Names] : k \in 0..MaxWalk}
AttachPaths == {p \in Paths : Len(p) <= 1}

Acts ==
  {<<"attach", f, u, p, af>> : f \in Fids, u \in BOOLEAN, p \in AttachPaths, af \in {0, 1}}
  \cup {<<"walk", f, nf, w>> : f \in Fids, nf \in Fids, w \in WalkLists}
  \cup {<<"open", f, m>> : f \in Fids, m \in OpenModes}
  \cup {<<"create", f, nm, k, m, t, lf>> : f \in Fids, nm \in Names, k \in Kinds, m \in OpenModes, t \in Names, lf \in 0..NFids}
  \cup {<<"read", f, 0, c>> : f \in Fids, c \in RCounts}
  \cup {<<"write", f, w>> : f \in Fids, w \in WData}
  \cup {<<"clunk", f>> : f \in Fids}
  \cup {<<"remove", f>> : f \in Fids}
  \cup {<<"stat", f>> : f \in Fids}
  \cup {<<"wstat", f>> : f \in Fids}

(* requests that name a valid fid (attach: a free one) and stay inside the bounds; refusals by the
   framework or by the server are explored like everything else *)
Enabled(s, a) ==
     CASE a[1] = "attach" -> ~Valid(s, a[2]) /\ (~a[3] => a[4] = <<>>) /\ (a[5] # 0 => ~a[3]) /\ (a[3] => "aname" \in Feat)
       [] a[1] = "walk"   -> "walk" \in Feat /\ Valid(s, a[2])
       [] a[1] = "open"   -> "open" \in Feat /\ Valid(s, a[2])
       [] a[1] = "create" -> "create" \in Feat /\ Valid(s, a[2])
                             /\ (a[4] # "sym" => a[6] = CHOOSE n \in Names : TRUE)
                             /\ (a[4] # "link" => a[7] = 0)
       [] a[1] = "read"   -> "io" \in Feat /\ Valid(s, a[2])
       [] a[1] = "write"  -> "io" \in Feat /\ Valid(s, a[2]) /\ Len(s.fid[a[2]].data) + Len(a[3]) <= MaxBuf
                             /\ (Hist => Len(s.fid[a[2]].wl) + Len(a[3]) <= MaxBuf)
       [] a[1] = "clunk"  -> Valid(s, a[2])
       [] a[1] = "remove" -> "remove" \in Feat /\ Valid(s, a[2])
       [] a[1] = "stat"   -> "stat" \in Feat /\ Valid(s, a[2])
       [] a[1] = "wstat"  -> "stat" \in Feat /\ Valid(s, a[2])

InitState == [fs  |-> [p \in Paths |-> IF p = <<>> THEN [k |-> "dir", id |-> 1, tgt |-> ""] ELSE NoNode],
              fid |-> [f \in Fids |-> NoFid],
              leak |-> 0]

Init == st = InitState /\ obs = NoObs /\ last = <<"none">>

Do(a) == LET r == Step(st, a, NoHint) IN
         /\ Enabled(st, a)
         /\ r.obs.reply # "any"
         /\ st' = r.s
         /\ obs' = r.obs
         /\ last' = a

(* directory reads: every offset and count that is interesting for some listing, as constant sets
   (TLC's edge labels carry the arguments only of actions quantified directly under Next): inside
   the first entry, at and around every boundary, at the end of the listing, beyond it, and an
   offset that does not fit 32 bits *)
Sz(n) == StatBase + Len(n)
DOffSet == {0, 1, 4000, -1}
           \cup {Sz(x) + d : x \in Names, d \in {-1, 0, 1}}
           \cup {Sz(x) + Sz(y) + d : x \in Names, y \in Names, d \in {-1, 0, 1}}
DCountSet == {0, 1, Msize - IOHDRSZ, Msize - IOHDRSZ + 1}
             \cup {Sz(x) + d : x \in Names, d \in {-1, 0}}
             \cup {Sz(x) + Sz(y) + d : x \in Names, y \in Names, d \in {0, 5}}
DReadEnabled(s, f, off, cnt) ==
  /\ "dread" \in Feat /\ Valid(s, f)
  /\ LET total == IF off = 0 /\ Lstat(s, s.fid[f].path).k = "dir"
                  THEN Total(Listing(s, Canon(s, s.fid[f].path), SetToSeq(Kids(s, Canon(s, s.fid[f].path)))))
                  ELSE Total(s.fid[f].snap) IN
     \* offsets up to a little beyond the listing at hand, and the two far ones
     off \in {4000, -1} \/ off <= total + 1
DoRead(f, off, cnt) ==
  LET r == Step(st, <<"dread", f, off, cnt>>, NoHint) IN
  /\ DReadEnabled(st, f, off, cnt)
  /\ r.obs.reply # "any"
  /\ st' = r.s
  /\ obs' = r.obs
  /\ last' = <<"dread", f, off, cnt>>

Next == \/ \E a \in Acts : Do(a)
        \/ \E f \in Fids, off \in DOffSet, cnt \in DCountSet : DoRead(f, off, cnt)
Spec == Init /\ [][Next]_vars

(* ---------------------------------------------------------------- properties of the machine *)
TypeOK ==
  /\ \A p \in DOMAIN st.fs : st.fs[p].k \in {"none", "dir", "file", "sym"}
  /\ \A f \in Fids : LET fd == st.fid[f] IN
        fd.used \in BOOLEAN /\ fd.open \in BOOLEAN /\ fd.file \in BOOLEAN /\ fd.ty \in {"dir", "file", "sym"}
  /\ obs.reply \in {"ok", "err"} \cup (IF FixDirPast THEN {} ELSE {"crash"})

(* the tree is a tree: objects live in directories, directories have one name, hard links join
   files or links of one kind and target, ids are canonical *)
TreeOK ==
  /\ st.fs[<<>>].k = "dir"
  /\ \A p \in DOMAIN st.fs : st.fs[p].k # "none" =>
        /\ st.fs[p].id > 0
        /\ (p # <<>> => st.fs[Front(p)].k = "dir")
        /\ \A q \in DOMAIN st.fs : (q # p /\ st.fs[q].id = st.fs[p].id) => st.fs[q] = st.fs[p] /\ st.fs[p].k # "dir"
  /\ \A p \in DOMAIN st.fs : st.fs[p].k = "none" => st.fs[p] = NoNode
  /\ st.fs = Renumber(st.fs)

(* a fid that is not in use holds nothing; only an opened fid can have unread bytes;
   (with ReadNeedsNoOpen an unopened directory fid may hold a file and a listing) *)
FidsSound ==
  \A f \in Fids : LET fd == st.fid[f] IN
    /\ (~fd.used => fd = NoFid)
    /\ (fd.data # "" => fd.open)
    /\ (fd.open /\ fd.ty = "dir" => ~WriteOrTrunc(fd.omode))

(* FIFO, exactly once, in order, per fid: what was read through a fid followed by what is still
   buffered is what was written through it; in particular the concatenation of all read results is
   a prefix of the concatenation of all writes *)
IsPrefix(x, y) == Len(x) <= Len(y) /\ SubSeq(y, 1, Len(x)) = x
FifoExact ==
  Hist => \A f \in Fids : LET fd == st.fid[f] IN
            /\ fd.rl \o fd.data = fd.wl
            /\ IsPrefix(fd.rl, fd.wl)

(* Rwrite carries the length of the data; a read never returns more than count; a FIFO read
   returns min(count, buffered) bytes, the front of the buffer, and removes exactly those *)
WriteCount ==
  [][(last'[1] = "write" /\ obs'.reply = "ok") =>
       /\ obs'.n = Len(last'[3])
       /\ st'.fid[last'[2]].data = st.fid[last'[2]].data \o last'[3]]_vars
ReadBound ==
  [][(last'[1] \in {"read", "dread"} /\ obs'.reply = "ok") => obs'.n <= last'[4] /\ obs'.n >= 0]_vars
ReadPops ==
  [][(last'[1] = "read" /\ obs'.reply = "ok") =>
       LET f == last'[2] IN
       /\ obs'.n = Min(last'[4], Len(st.fid[f].data)) /\ Len(obs'.data) = obs'.n
       /\ obs'.data \o st'.fid[f].data = st.fid[f].data]_vars
(* buffers are per fid: a request changes no buffer but that of its own fid *)
BuffersApart ==
  [][\A f \in Fids : (last'[1] # "none" /\ f # last'[2] /\ st.fid[f].used /\ st'.fid[f].used) => st'.fid[f].data = st.fid[f].data]_vars

(* a directory read answers with the window of the listing it kept *)
DirWindow ==
  [][(last'[1] = "dread" /\ obs'.reply = "ok") =>
       LET f == last'[2]  off == last'[3]  cnt == last'[4]  total == Total(st'.fid[f].snap) IN
       /\ obs'.snap = st'.fid[f].snap
       /\ (off # 0 => st'.fid[f].snap = st.fid[f].snap)
       /\ obs'.n = IF Past(off, total) THEN 0 ELSE Min(cnt, total - off)]_vars

(* the slice expression of the directory branch is in bounds for EVERY offset and count, not only
   for those TLC sends (with FixDirPast = FALSE this fails for every offset beyond a listing) *)
WindowSafe ==
  \A f \in Fids : st.fid[f].used =>
    LET total == Total(st.fid[f].snap) IN
    \A off \in (0..(total + 2)) \cup {-1}, cnt \in {0, 1, 2, total - 1, total, total + 1, Msize - IOHDRSZ} :
      cnt >= 0 =>
        LET sl == DirSlice(total, off, cnt) IN
        /\ InBounds(sl, total)
        /\ (sl # <<>> => sl[2] - sl[1] <= cnt)

(* a refusal changes nothing -- except: the recorded open mode (OmodeOnFailure), the fid of a
   Tremove, the file a fid held before a reopen or a Topen failed (FileDropped), and the hard link
   a refused Tcreate leaves behind (LinkStays).  With FixDangling = FALSE this fails: the refused
   symbolic link stays. *)
SameBut(s, t, f) ==
  /\ \A g \in Fids : g # f => t.fid[g] = s.fid[g]
SameFidButOmode(a, b) == [b EXCEPT !.omode = a.omode] = a
RefusalsChangeNothing ==
  [][(obs'.reply = "err") =>
       LET f == last'[2] IN
       /\ \A g \in Fids : g # f => st'.fid[g] = st.fid[g]
       /\ (last'[1] # "open" => st'.leak = st.leak)
       /\ CASE last'[1] = "remove" -> st'.fs = st.fs /\ (f \in Fids => st'.fid[f] = NoFid)
            [] last'[1] = "dread"  -> st'.fs = st.fs /\ (f \in Fids => [st'.fid[f] EXCEPT !.file = st.fid[f].file] = st.fid[f])
            [] last'[1] = "open"   -> st'.fs = st.fs /\ (f \in Fids => [st'.fid[f] EXCEPT !.file = st.fid[f].file, !.omode = st.fid[f].omode] = st.fid[f])
            [] last'[1] = "create" ->
                 /\ (f \in Fids => SameFidButOmode(st.fid[f], st'.fid[f]))
                 /\ \/ st'.fs = st.fs
                    \/ last'[4] = "link"                                        \* LinkStays
            [] OTHER -> st'.fs = st.fs /\ (f \in Fids => SameFidButOmode(st.fid[f], st'.fid[f]))]_vars
(* requests that are not Tcreate / Tremove never change the tree; a walk never changes the fid it
   starts from unless it is complete and in place *)
TreeStable ==
  [][last'[1] \notin {"create", "remove"} => st'.fs = st.fs]_vars
WalkAtomic ==
  [][(last'[1] = "walk" /\ Len(obs'.qids) < Len(last'[4])) => st' = st]_vars

View == st
=============================================================================
