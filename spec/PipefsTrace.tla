---------------------------- MODULE PipefsTrace ----------------------------
(* Validates histories executed on the real go9p.Pipefs (raw 9P over net.Pipe, harness/pipefsh)
   against the reference machine Pipefs.  One ndjson line per step:
     {"act": [...],
      "obs": {reply, qids, n, data, stat, snap, ids, ents},
      "post": {"tree": [[path, kind, id, target] ...], "fids": [[used, path, open, type, omode, file, data] per fid],
               "nfd": n, "extrafids": n}}
   "post" is read from the real server and the real directory after the step: the tree below the
   root, what every fid number designates (path, buffer, whether it holds an open file; the type
   and open mode the framework remembers), the number of descriptors of the server process that
   point below the root (it must lie between the number of fids that hold a file and that number
   plus the files dropped without being closed, see FileDropped in Pipefs), and the number of fids
   outside 1..NFids.  A line that differs from
   Pipefs!Step is printed as MISMATCH with the names of the differing parts and the rest of that
   history is skipped; a step the machine does not describe ("any") ends the history silently
   (UNSPEC).  {"act":["Reset"],"case":k} starts a new history. *)
EXTENDS Pipefs, Json, IOUtils

TraceFile == IF "TRACE_FILE" \in DOMAIN IOEnv THEN IOEnv.TRACE_FILE ELSE "pipefstrace.ndjson"
Trace == ndJsonDeserialize(TraceFile)

VARIABLES l, case, done, failed
tvars == <<l, case, done, failed>>

Line == Trace[l]

Hint(a, got) == IF a[1] = "dread" /\ a[3] = 0
                THEN [use |-> TRUE, order |-> [i \in 1..Len(got.snap) |-> got.snap[i][1]]]
                ELSE NoHint

ObsDiff(a, exp, got) ==
  (IF got.reply # exp.reply THEN <<"reply">> ELSE <<>>)
  \o (IF got.qids # exp.qids THEN <<"qids">> ELSE <<>>)
  \o (IF got.n # exp.n THEN <<"n">> ELSE <<>>)
  \o (IF got.data # exp.data THEN <<"data">> ELSE <<>>)
  \o (IF got.stat # exp.stat THEN <<"stat">> ELSE <<>>)
  \o (IF got.reply = "ok" /\ got.snap # exp.snap THEN <<"listing">> ELSE <<>>)
  \o (IF got.reply = "ok" /\ got.ids # exp.ids THEN <<"listingids">> ELSE <<>>)
  \o (IF got.ents # exp.ents THEN <<"window">> ELSE <<>>)

FidsOf(s) == [f \in Fids |-> LET fd == s.fid[f] IN <<fd.used, fd.path, fd.open, fd.ty, fd.omode, fd.file, fd.data>>]
TreeOf(s) == {<<p, s.fs[p].k, s.fs[p].id, s.fs[p].tgt>> : p \in {q \in DOMAIN s.fs : s.fs[q].k # "none"}}
NFd(s) == Cardinality({f \in Fids : s.fid[f].file})

(* names of the fids whose read-back differs, and of what differs *)
FidDiff(s, post) ==
  LET x == FidsOf(s) IN
  (IF \E f \in Fids : post.fids[f][1] # x[f][1] THEN <<"fid-used">> ELSE <<>>)
  \o (IF \E f \in Fids : post.fids[f][2] # x[f][2] THEN <<"fid-path">> ELSE <<>>)
  \o (IF \E f \in Fids : post.fids[f][3] # x[f][3] THEN <<"fid-open">> ELSE <<>>)
  \o (IF \E f \in Fids : post.fids[f][4] # x[f][4] THEN <<"fid-type">> ELSE <<>>)
  \o (IF \E f \in Fids : post.fids[f][5] # x[f][5] THEN <<"fid-omode">> ELSE <<>>)
  \o (IF \E f \in Fids : post.fids[f][6] # x[f][6] THEN <<"fid-file">> ELSE <<>>)
  \o (IF \E f \in Fids : post.fids[f][7] # x[f][7] THEN <<"fid-buffer">> ELSE <<>>)

PostDiff(s, post) ==
  FidDiff(s, post)
  \o (IF {post.tree[i] : i \in 1..Len(post.tree)} # TreeOf(s) THEN <<"tree">> ELSE <<>>)
  \o (IF post.nfd < NFd(s) \/ (s.leak < 3 /\ post.nfd > NFd(s) + s.leak) THEN <<"descriptors">> ELSE <<>>)
  \o (IF post.extrafids # 0 THEN <<"extrafids">> ELSE <<>>)

(* what the request's fid was before the step (for the violation key) *)
Ctx(a) == IF a[2] \in Fids /\ st.fid[a[2]].used
          THEN LET fd == st.fid[a[2]] IN <<IF fd.open THEN "open" ELSE "closed", fd.ty, Lstat(st, fd.path).k>>
          ELSE <<"invalid">>

TraceInit == Init /\ l = 1 /\ case = 0 /\ done = FALSE /\ failed = FALSE

StepLine ==
  /\ l <= Len(Trace) /\ Line.act[1] \notin {"Reset", "Crash"}
  /\ IF failed THEN UNCHANGED <<vars, failed>>
     ELSE LET a == Line.act
              r == Step(st, a, Hint(a, Line.obs)) IN
          IF r.obs.reply = "any"
          THEN /\ failed' = TRUE
               /\ PrintT("UNSPEC " \o ToJson([case |-> case, line |-> l, act |-> a]))
               /\ UNCHANGED vars
          ELSE LET d == ObsDiff(a, r.obs, Line.obs) \o PostDiff(r.s, Line.post) IN
               /\ failed' = (d # <<>>)
               /\ (d # <<>> => PrintT("MISMATCH " \o ToJson([case |-> case, line |-> l, act |-> a, diff |-> d,
                                        expected |-> r.obs, got |-> Line.obs,
                                        xpost |-> [fids |-> FidsOf(r.s), tree |-> TreeOf(r.s), nfd |-> NFd(r.s), leak |-> r.s.leak],
                                        post |-> Line.post, ctx |-> Ctx(a)])))
               /\ st' = r.s /\ obs' = r.obs /\ last' = a
  /\ l' = l + 1 /\ UNCHANGED <<case, done>>

ResetLine ==
  /\ l <= Len(Trace) /\ Line.act[1] = "Reset"
  /\ st' = InitState /\ obs' = NoObs /\ last' = <<"none">>
  /\ l' = l + 1 /\ case' = Line.case /\ failed' = FALSE /\ UNCHANGED done

Finish == /\ l = Len(Trace) + 1 /\ ~done /\ done' = TRUE
          /\ PrintT(<<"CONSUMED", Len(Trace)>>)
          /\ UNCHANGED <<vars, l, case, failed>>

TraceNext == StepLine \/ ResetLine \/ Finish
TraceSpec == TraceInit /\ [][TraceNext]_<<vars, tvars>>
=============================================================================
