------------------------------ MODULE RecvLoop ------------------------------
(* The receive loops of go9p: Conn.recv (srv_conn.go) and Clnt.recv (clnt_clnt.go), transcribed
   statement by statement.  Property C13 (behaviour depends on the byte stream, not on how it is
   cut into transport reads) and the framing half of C12 (a frame announcing size > msize or
   smaller than a header drops the connection and is never delivered).

     buf := make([]byte, msize*8); pos := 0            (client: buf = nil)
     for {
   Top:    if len(buf) < msize { b := make(8*msize); copy(b, buf[0:pos]); buf = b }
   Read:   n := Read(buf[pos:]); if err != nil || n == 0 { close }          pos += n
           for pos > 4 {
   Peek:       sz := Gint32(buf)
               if sz > msize { drop }                                        (server only)
               if pos < sz { if len(buf) < sz { b := make(8*msize); copy(b, buf[0:pos]); buf = b }; break }
   Parse:      fc, fcsize := Unpack(buf)          (size < 7 => error => drop; fc aliases buf[0:sz])
               deliver fc   (server: a Tversion is processed here, synchronously, and may lower msize)
   Advance:    buf = buf[fcsize:]; pos -= fcsize
           }
     }

   State.  The byte stream is a sequence of frames [sz announced size, len bytes it occupies,
   ver > 0: a version message carrying that msize, st bytes of the stream before it].  The buffer
   is (bufid, base, cap): the bufid-th allocated array, buf[0] is array index base, len(buf) = cap.
   Its contents are kept as segments [a array index, s stream offset of the byte stored there,
   n length] (one segment in every reachable state of the literal loop), so "the copy at a
   reallocation preserves buf[0:pos]" and "a delivered message is intact" are checked on contents,
   not assumed.  Delivered Fcalls alias the buffer (Twrite data, Pkt): [dlo, dhi) is the hull of
   the array ranges of the current buffer that delivered messages alias; older buffers are never
   written again because Read only writes the current one.

   Read(n) is enabled for every 1 <= n <= min(bytes not yet read, cap - pos): every segmentation
   of the stream into transport reads is a behaviour.

   Variant = "code" is the transcription.  The other variants are seeded wrong loops used as a
   self-test that the invariants are not vacuous (each must be refuted by TLC). *)
EXTENDS Integers, Sequences, FiniteSets, TLC

CONSTANTS Server,    \* TRUE: Conn.recv; FALSE: Clnt.recv (no oversize check, msize lowered by Connect)
          HDR,       \* length of the size prefix: the loop peeks when pos > HDR       (4; scaled 2)
          MINSZ,     \* smallest frame Unpack accepts                                  (7; scaled 3)
          Msizes,    \* initial msize values explored (Init only)
          Factors,   \* buffer = fac * msize                                           (8; scaled 2..3)
          MaxMsgs, Sizes, Vers,   \* stream space explored by Init (exhaustive runs only)
          Variant

VARIABLES stream, m0, fac,        \* fixed per behaviour
          msize, lowk,            \* current msize; client: last message whose lowering Connect applied
          bufid, base, cap, pos, segs,
          off,                    \* bytes of the stream read so far
          pc, why,
          nd,                     \* messages delivered
          dok,                    \* every delivery so far was the next message of the stream, intact, legal
          dlo, dhi,               \* aliased hull in the current buffer
          clobber                 \* a write hit an aliased range

vars == <<stream, m0, fac, msize, lowk, bufid, base, cap, pos, segs, off, pc, why, nd, dok, dlo, dhi, clobber>>
bufv == <<bufid, base, cap, segs, dlo, dhi>>

Min(a, b) == IF a < b THEN a ELSE b
Max(a, b) == IF a > b THEN a ELSE b

NMsgs == Len(stream)
End(k) == stream[k].st + stream[k].len
Total == IF NMsgs = 0 THEN 0 ELSE End(NMsgs)
DeliveredBytes == IF nd = 0 THEN 0 ELSE End(nd)

(* client: the peer sends nothing after an Rversion until the next request, which the client
   issues only after Connect has stored the negotiated msize *)
NextVer == LET S == {k \in (lowk + 1)..NMsgs : stream[k].ver > 0}
           IN IF S = {} THEN 0 ELSE CHOOSE k \in S : \A j \in S : k <= j
Limit == IF Server \/ NextVer = 0 THEN Total ELSE End(NextVer)
Avail == Limit - off

(* ---------------------------------------------------------------- buffer contents *)
Overlaps(sg, lo, n) == sg.a < lo + n /\ lo < sg.a + sg.n
(* array range [lo, lo+n) of the current buffer holds stream bytes s, s+1, ... (latest write wins) *)
Covered(lo, n, s) ==
  \/ n <= 0
  \/ \E j \in 1..Len(segs) :
       /\ segs[j].a <= lo /\ lo + n <= segs[j].a + segs[j].n
       /\ segs[j].s + (lo - segs[j].a) = s
       /\ \A j2 \in (j + 1)..Len(segs) : ~Overlaps(segs[j2], lo, n)

Write(sq, a, n, s) ==
  IF Len(sq) > 0 /\ sq[Len(sq)].a + sq[Len(sq)].n = a /\ sq[Len(sq)].s + sq[Len(sq)].n = s
  THEN [sq EXCEPT ![Len(sq)].n = @ + n]
  ELSE Append(sq, [a |-> a, s |-> s, n |-> n])

Clip(sg, lo, hi, to) ==
  LET a2 == Max(sg.a, lo)
      e2 == Min(sg.a + sg.n, hi)
  IN [a |-> a2 - lo + to, s |-> sg.s + (a2 - sg.a), n |-> e2 - a2]
Moved(lo, hi, to) == SelectSeq([j \in 1..Len(segs) |-> Clip(segs[j], lo, hi, to)], LAMBDA x : x.n > 0)

(* b := make([]byte, newcap); copy(b, buf[0:pos]); buf = b *)
Realloc(newcap) ==
  /\ bufid' = bufid + 1 /\ base' = 0 /\ cap' = newcap
  /\ segs' = Moved(base, base + Min(pos, newcap), 0)
  /\ dlo' = 0 /\ dhi' = 0

(* buf[0:n) holds the first n bytes of the next undelivered message *)
Aligned(n) == nd < NMsgs /\ Covered(base, n, stream[nd + 1].st + 1)

(* ---------------------------------------------------------------- the loop *)
Top ==
  /\ pc = "top"
  /\ IF cap < msize /\ Variant # "notop" THEN Realloc(fac * msize) ELSE UNCHANGED bufv
  /\ pc' = "read"
  /\ UNCHANGED <<stream, m0, fac, msize, lowk, pos, off, why, nd, dok, clobber>>

Read(n) ==
  /\ pc = "read" /\ cap - pos > 0
  /\ n \in 1..Min(Avail, cap - pos)
  /\ segs' = Write(segs, base + pos, n, off + 1)
  /\ clobber' = (clobber \/ (base + pos < dhi /\ base + pos + n > dlo))
  /\ pos' = pos + n /\ off' = off + n
  /\ pc' = "peek"
  /\ UNCHANGED <<stream, m0, fac, msize, lowk, bufid, base, cap, why, nd, dok, dlo, dhi>>

(* Read(buf[pos:]) with an empty slice returns 0: the loop closes the connection *)
ZeroRead ==
  /\ pc = "read" /\ cap - pos <= 0
  /\ pc' = "closed" /\ why' = "zeroread"
  /\ UNCHANGED <<stream, m0, fac, msize, lowk, bufid, base, cap, pos, segs, off, nd, dok, dlo, dhi, clobber>>

PeekMin == IF Variant = "peek7" THEN MINSZ ELSE HDR

Peek ==
  /\ pc = "peek"
  /\ UNCHANGED <<stream, m0, fac, msize, lowk, pos, off, nd, dok, clobber>>
  /\ IF pos <= PeekMin THEN pc' = "top" /\ UNCHANGED <<bufv, why>>
     ELSE IF ~Aligned(HDR) THEN pc' = "closed" /\ why' = "desync" /\ UNCHANGED bufv
     ELSE LET sz == stream[nd + 1].sz IN
       IF Server /\ sz > msize /\ Variant # "nolimit"
       THEN pc' = "closed" /\ why' = "oversize" /\ UNCHANGED bufv
       ELSE IF pos < sz
       THEN /\ IF cap < sz /\ Variant # "nomid" THEN Realloc(fac * msize) ELSE UNCHANGED bufv
            /\ pc' = "top" /\ UNCHANGED why
       ELSE pc' = "parse" /\ UNCHANGED <<bufv, why>>

Parse ==
  /\ pc = "parse"
  /\ LET m == stream[nd + 1] IN
     IF m.sz < MINSZ
     THEN /\ pc' = "closed" /\ why' = "short"
          /\ UNCHANGED <<msize, nd, dok, dlo, dhi>>
     ELSE /\ nd' = nd + 1
          /\ dok' = (dok /\ Aligned(m.sz) /\ m.sz = m.len /\ (Server => m.sz <= msize))
          /\ dlo' = IF dlo = dhi THEN base ELSE Min(dlo, base)
          /\ dhi' = IF dlo = dhi THEN base + m.sz ELSE Max(dhi, base + m.sz)
          /\ msize' = IF Server /\ m.ver > 0 THEN Min(msize, m.ver) ELSE msize
          /\ pc' = "advance" /\ UNCHANGED why
  /\ UNCHANGED <<stream, m0, fac, lowk, bufid, base, cap, pos, segs, off, clobber>>

Advance ==
  /\ pc = "advance"
  /\ LET sz == stream[nd].sz IN
     CASE Variant = "rewind" ->   \* copy(buf, buf[fcsize:pos]); pos -= fcsize   (buffer reused)
            /\ segs' = segs \o Moved(base + sz, base + pos, base)
            /\ clobber' = (clobber \/ (pos - sz > 0 /\ base < dhi /\ base + pos - sz > dlo))
            /\ pos' = pos - sz /\ UNCHANGED <<base, cap>>
       [] Variant = "adv1" ->     \* pos -= fcsize without buf = buf[fcsize:]
            /\ pos' = pos - sz /\ UNCHANGED <<base, cap, segs, clobber>>
       [] OTHER ->                \* buf = buf[fcsize:]; pos -= fcsize
            /\ base' = base + sz /\ cap' = cap - sz /\ pos' = pos - sz
            /\ UNCHANGED <<segs, clobber>>
  /\ pc' = "peek"
  /\ UNCHANGED <<stream, m0, fac, msize, lowk, bufid, off, why, nd, dok, dlo, dhi>>

(* client: Connect stores the msize of the Rversion it was handed (any time after delivery) *)
Lower ==
  /\ ~Server /\ pc # "closed"
  /\ NextVer # 0 /\ NextVer <= nd
  /\ msize' = Min(msize, stream[NextVer].ver)
  /\ lowk' = NextVer
  /\ UNCHANGED <<stream, m0, fac, bufid, base, cap, pos, segs, off, pc, why, nd, dok, dlo, dhi, clobber>>

Next == Top \/ (\E n \in 1..(fac * m0) : Read(n)) \/ ZeroRead \/ Peek \/ Parse \/ Advance \/ Lower

(* ---------------------------------------------------------------- exhaustive instance *)
PhysLen(sz) == IF sz < MINSZ THEN MINSZ ELSE sz
RECURSIVE SumLen(_, _)
SumLen(q, k) == IF k = 0 THEN 0 ELSE SumLen(q, k - 1) + PhysLen(q[k].sz)
Build(q) == [k \in 1..Len(q) |-> [sz |-> q[k].sz, len |-> PhysLen(q[k].sz), ver |-> q[k].ver, st |-> SumLen(q, k - 1)]]
RawMsgs == [sz : Sizes, ver : Vers \cup {0}]
(* msize in force when message k is parsed (after the version messages before it) *)
EffMsize(q, m, k) == LET S == {q[j].ver : j \in {i \in 1..(k - 1) : q[i].ver > 0}} \cup {m}
                     IN CHOOSE x \in S : \A y \in S : x <= y
RawOK(q, m) ==
  /\ Cardinality({k \in 1..Len(q) : q[k].ver > 0}) <= 1
  /\ \A k \in 1..Len(q) : q[k].ver > 0 => (q[k].sz >= MINSZ /\ q[k].sz <= m)
  /\ Server \/ \A k \in 1..Len(q) : q[k].sz >= MINSZ /\ q[k].sz <= EffMsize(q, m, k)
RawStreams == UNION {[1..n -> RawMsgs] : n \in 0..MaxMsgs}

Init ==
  /\ m0 \in Msizes /\ fac \in Factors
  /\ \E q \in RawStreams : RawOK(q, m0) /\ stream = Build(q)
  /\ msize = m0 /\ lowk = 0
  /\ bufid = (IF Server THEN 1 ELSE 0) /\ base = 0 /\ cap = (IF Server THEN fac * m0 ELSE 0)
  /\ pos = 0 /\ segs = <<>> /\ off = 0
  /\ pc = "top" /\ why = "" /\ nd = 0 /\ dok = TRUE /\ dlo = 0 /\ dhi = 0 /\ clobber = FALSE

Spec == Init /\ [][Next]_vars

(* ---------------------------------------------------------------- properties *)
Eff(k) == EffMsize(stream, m0, k)
Bad(k) == stream[k].sz < MINSZ \/ (Server /\ stream[k].sz > Eff(k))
FirstBad == LET S == {k \in 1..NMsgs : Bad(k)} IN IF S = {} THEN 0 ELSE CHOOSE k \in S : \A j \in S : k <= j

(* the delivered sequence is a prefix of the sent one, every message intact, none illegal *)
DeliveredPrefix == dok /\ nd <= NMsgs /\ (FirstBad # 0 => nd < FirstBad)
(* Read is never attempted on an empty slice (the loop would see n = 0 and close) *)
NoZeroRead == (pc = "read" => cap - pos > 0) /\ why # "zeroread"
(* buf[pos:] never panics, the copy at a reallocation is never truncated *)
PosWithinCap == 0 <= pos /\ pos <= cap /\ cap <= fac * m0
(* no byte a delivered message aliases is written again *)
NoClobber == ~clobber
(* buf[0:pos) is exactly the next pos undelivered bytes of the stream (reallocation preserves it) *)
BufferHoldsNext ==
  pc # "closed" =>
    LET first == IF pc = "advance" THEN stream[nd].st ELSE DeliveredBytes
    IN Covered(base, pos, first + 1) /\ off = first + pos
(* the connection is dropped exactly at the first illegal frame, for that reason *)
DropOnlyBad ==
  pc = "closed" => /\ FirstBad = nd + 1
                   /\ why = (IF stream[nd + 1].sz < MINSZ THEN "short" ELSE "oversize")
(* when every byte has been read and the loop waits for more, every message has been delivered once *)
Complete == (pc = "read" /\ off = Total) => (FirstBad = 0 /\ nd = NMsgs /\ pos = 0)
(* the loop never waits for more bytes while a whole legal frame sits in the buffer (a request is
   executed as soon as its last byte has arrived, not when later bytes arrive) *)
Prompt == (pc = "read" /\ nd < NMsgs /\ (FirstBad = 0 \/ nd + 1 < FirstBad)) => pos < stream[nd + 1].len
(* sanity of the client gating *)
GateLive == (pc = "read" /\ Avail = 0 /\ off < Total) => (~Server /\ NextVer # 0 /\ NextVer <= nd)

Inv == DeliveredPrefix /\ NoZeroRead /\ PosWithinCap /\ NoClobber /\ BufferHoldsNext /\ DropOnlyBad /\ Complete /\ Prompt /\ GateLive

(* observation-only summary used by the harness: the spec's prediction for a stream *)
Predicted == IF FirstBad = 0 THEN NMsgs ELSE FirstBad - 1
=============================================================================
