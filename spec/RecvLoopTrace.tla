--------------------------- MODULE RecvLoopTrace ---------------------------
(* Trace validation for RecvLoop with the REAL constants (HDR = 4, MINSZ = 7, factor 8, msize
   64..4096): every line of the ndjson file is one event recorded by the verif hooks of the real
   receive loop (harness/recvh), in execution order:

     {"ev":"Reset","case":id,"m0":msize before negotiation,"fac":8,"cap0":len(buf) at start,
      "stream":[{"sz":announced,"len":bytes,"ver":msize carried by a version message or 0,"st":offset}...]}
     {"ev":"read","n":n,"pos":pos before,"cap":len(buf)}        recv_read / crecv_read
     {"ev":"adv","sz":fcsize,"pos":pos,"cap":len(buf)}          recv_advance / crecv_advance
     {"ev":"lower","m":msize}                                   client: Connect returned
     {"ev":"end","closed":bool,"nd":messages delivered}         harness: end of the case

   The stream is what the harness sent, so apart from the read sizes the loop is deterministic:
   Top, Peek, Parse (and both reallocations) are silent steps, Read and Advance must agree with
   the logged numbers (n, pos, len(buf), size) in the state the specification has reached.  The
   invariants of RecvLoop are checked on every state of every accepted trace.

   A line that cannot be matched is printed as "REJECT <case> <line> <event> in state <state>" and the rest of the
   case is skipped; <<"CONSUMED", lines>> is printed when the whole file has been processed. *)
EXTENDS RecvLoop, Json, IOUtils

TraceFile == IF "TRACE_FILE" \in DOMAIN IOEnv THEN IOEnv.TRACE_FILE ELSE "trace.ndjson"
Trace == ndJsonDeserialize(TraceFile)

VARIABLES l, failed, case, done
tvars == <<l, failed, case, done>>

Line == Trace[l]

TraceInit ==
  /\ stream = <<>> /\ m0 = 1 /\ fac = 1 /\ msize = 1 /\ lowk = 0
  /\ bufid = 0 /\ base = 0 /\ cap = 0 /\ pos = 0 /\ segs = <<>> /\ off = 0
  /\ pc = "closed" /\ why = "" /\ nd = 0 /\ dok = TRUE /\ dlo = 0 /\ dhi = 0 /\ clobber = FALSE
  /\ l = 1 /\ failed = FALSE /\ case = 0 /\ done = FALSE

Ev(name) == l <= Len(Trace) /\ ~failed /\ Line.ev = name

StreamOK(s) ==
  \A k \in 1..Len(s) : /\ s[k].st = (IF k = 1 THEN 0 ELSE s[k - 1].st + s[k - 1].len)
                       /\ s[k].len > HDR

ResetStep ==
  /\ l <= Len(Trace) /\ Line.ev = "Reset"
  /\ Assert(StreamOK(Line.stream), <<"malformed stream in Reset line", l>>)
  /\ stream' = Line.stream /\ m0' = Line.m0 /\ fac' = Line.fac /\ msize' = Line.m0 /\ lowk' = 0
  /\ bufid' = (IF Line.cap0 > 0 THEN 1 ELSE 0) /\ base' = 0 /\ cap' = Line.cap0
  /\ pos' = 0 /\ segs' = <<>> /\ off' = 0
  /\ pc' = "top" /\ why' = "" /\ nd' = 0 /\ dok' = TRUE /\ dlo' = 0 /\ dhi' = 0 /\ clobber' = FALSE
  /\ l' = l + 1 /\ failed' = FALSE /\ case' = Line.case /\ UNCHANGED done

Silent == Top \/ Peek \/ Parse \/ ZeroRead
SilentStep == l <= Len(Trace) /\ ~failed /\ Line.ev # "Reset" /\ Silent /\ UNCHANGED tvars

Step ==
  \/ Ev("read") /\ pc = "read" /\ pos = Line.pos /\ cap = Line.cap /\ Read(Line.n)
  \/ Ev("adv") /\ pc = "advance" /\ pos = Line.pos /\ cap = Line.cap /\ stream[nd].sz = Line.sz /\ Advance
  \/ Ev("lower") /\ pc = "read" /\ Lower /\ msize' = Line.m
  \/ Ev("end") /\ pc \in {"read", "closed"} /\ (pc = "closed") = Line.closed /\ nd = Line.nd /\ UNCHANGED vars

Matched == Step /\ l' = l + 1 /\ UNCHANGED <<failed, case, done>>

Reject ==
  /\ l <= Len(Trace) /\ ~failed /\ Line.ev # "Reset"
  /\ ~ENABLED Matched /\ ~ENABLED SilentStep
  /\ PrintT("REJECT " \o ToString(case) \o " " \o ToString(l) \o " " \o ToString(Line) \o " in state " \o
            ToString([pc |-> pc, pos |-> pos, cap |-> cap, nd |-> nd, msize |-> msize, off |-> off, why |-> why]))
  /\ failed' = TRUE /\ l' = l + 1 /\ UNCHANGED <<vars, case, done>>

SkipStep ==
  /\ l <= Len(Trace) /\ failed /\ Line.ev # "Reset"
  /\ l' = l + 1 /\ UNCHANGED <<vars, failed, case, done>>

Finish == /\ l = Len(Trace) + 1 /\ ~done /\ PrintT(<<"CONSUMED", Len(Trace)>>)
          /\ done' = TRUE /\ UNCHANGED <<vars, l, failed, case>>

TraceNext == Matched \/ SilentStep \/ ResetStep \/ Reject \/ SkipStep \/ Finish
TraceSpec == TraceInit /\ [][TraceNext]_<<vars, tvars>>

(* invariants are only meaningful on matched prefixes; the parts of DeliveredPrefix that cost
   O(messages^2) are evaluated once per case, when the harness says the case is over *)
TraceInv == failed \/ pc = "closed" \/ (dok /\ nd <= NMsgs /\ NoZeroRead /\ PosWithinCap /\ NoClobber /\ BufferHoldsNext)
TraceInvClosed == (~failed /\ pc = "closed" /\ case # 0) => (dok /\ NoClobber /\ (why # "" => DropOnlyBad))
TraceInvEnd == (l <= Len(Trace) /\ ~failed /\ case # 0 /\ Line.ev = "end" /\ pc \in {"read", "closed"}) => (nd = Predicted /\ DeliveredPrefix)
=============================================================================
