------------------------------ MODULE Srv9P ------------------------------
(* One connection of the go9p server at schedule-point granularity.
   One action = the code between two verif schedule points (srv_srv.go
   process/Respond, srv_fcall.go flush, srv_conn.go recv/send/close), so that
   every action is one step of the gate controller (harness/sched).

   Threads: worker r in 1..NReq (runs process() of request r and every
   Respond activation it triggers); asynchronous implementation thread NReq+r
   (late and extra answers); the send goroutine; the receive goroutine
   (Recv, ClientClose, CloseEnter, CloseDestroy).

   Request kinds: Attach(fid) Stat(fid) Clunk(fid) Walk(fid,newfid) Flush(oldtag).
   Status bits, tag-group links (next = older, prev = newer), the flush chain
   and the list surgery of Respond are transcribed literally from the code. *)
EXTENDS Integers, Sequences, FiniteSets, TLC

CONSTANTS NReq,            \* requests per behaviour
          Tags, Fids, Kinds,
          FixFallthrough,  \* process() returns after answering a flushed request (fix 3)
          FixStale,        \* reply Fcall type cleared when taken from the pool (fix 7)
          FixOrder,        \* Respond unlinks the request only after queueing its reply (fix 8)
          FixChain,        \* flush chains are linked through a field of their own (fix 9a)
          FixBound,        \* the fid table's own reference is explicit (bind/unbind); close drops it instead of destroying (fix 12c)
          FixPending,      \* a fid is invisible to FidGet from FidNew until the creating request succeeded (bind)
          FixQueued,       \* flush of a request still queued behind older requests of its tag only flags it (it is answered,
                           \* without a reply, when its turn comes) instead of unlinking it out of turn
          FixAppend,       \* Respond appends its flush waiters to those of its same-tag successor (as coded: restarts a Tflush)
          FixClose,        \* Respond does not block on reqout after close; close drops table refs (fix 12)
          SharedTags,      \* client may reuse an outstanding tag for non-flush requests
          HasFlushOp,      \* implementation provides FlushOp
          Extra,           \* implementation may answer a request twice
          Late,            \* implementation may return without answering and answer later
          PoolCap,         \* capacity of conn.rchan
          Maxpend,         \* capacity of conn.reqout (0 = rendezvous)
          InitFids,        \* fids valid at the start (refcount 1)
          CanClose,        \* client may disconnect
          NoTag            \* the member of Tags standing for NOTAG (used by Tversion), 0 if no Tversion is sent

ReqIds  == 1..NReq
Threads == 1..(2*NReq)
Async(r) == NReq + r
NoFid == 0

VARIABLES nreq, rq, reqs, wpc, stack, act, fidref, spc, scur, outq, wire, impl,
          fc, pool, nfc, cstate, cpc, fdir, sstop, bound,
          \* ghost (observation) variables
          cancelled, badcall, crashed, destroyed, creator, calls, extra, closedn, made

vars == <<nreq, rq, reqs, wpc, stack, act, fidref, spc, scur, outq, wire, impl,
          fc, pool, nfc, cstate, cpc, fdir, sstop, bound,
          cancelled, badcall, crashed, destroyed, creator, calls, extra, closedn, made>>

NullRq == [kind |-> "none", tag |-> 0, fid |-> 0, newfid |-> 0, oldtag |-> 0,
           flush |-> FALSE, work |-> FALSE, resp |-> FALSE, saved |-> FALSE,
           next |-> 0, prev |-> 0, flushreq |-> 0, fnext |-> 0,
           hfid |-> 0, hnew |-> 0, tgt |-> 0, rc |-> 0, tq |-> FALSE]
NullAct == [st |-> "none", oldflush |-> FALSE, nextreq |-> 0, cur |-> 0]

Init ==
  /\ nreq = 0
  /\ rq = [r \in ReqIds |-> NullRq]
  /\ reqs = [t \in Tags |-> 0]
  /\ wpc = [r \in ReqIds |-> "none"]
  /\ stack = [g \in Threads |-> <<>>]
  /\ act = [r \in ReqIds |-> NullAct]
  /\ fidref = [f \in Fids |-> IF f \in InitFids THEN 1 ELSE 0]
  /\ spc = "idle" /\ scur = 0 /\ outq = <<>>
  /\ wire = <<>>
  /\ impl = [r \in ReqIds |-> "none"]
  /\ fc = [i \in ReqIds |-> [kind |-> "none", for |-> 0]]
  /\ pool = <<>> /\ nfc = 0
  /\ cstate = "open" /\ cpc = "run"
  /\ fdir = [f \in Fids |-> f \in InitFids]
  /\ sstop = FALSE
  /\ bound = [f \in Fids |-> f \in InitFids]
  /\ cancelled = {} /\ badcall = FALSE /\ crashed = FALSE
  /\ destroyed = [f \in Fids |-> 0]
  /\ creator = [f \in Fids |-> 0]
  /\ calls = <<>>
  /\ extra = [r \in ReqIds |-> FALSE]
  /\ closedn = 0
  /\ made = [f \in Fids |-> IF f \in InitFids THEN 1 ELSE 0]

ghosts == <<cancelled, badcall, crashed, destroyed, creator, calls, extra, closedn, made>>

-----------------------------------------------------------------------------
(* Client-side well-formedness of the next request (assumption predicates) *)
Outstanding(t) == \* tag t has been sent and its reply (or Rflush of a flush naming it) not yet received
  \E r \in 1..nreq : rq[r].tag = t /\ ~\E i \in 1..Len(wire) : wire[i].req = r

FlushedAway(r) == \* the client received an Rflush for a flush that named r's tag after r was sent
  \E i \in 1..Len(wire) : /\ rq[wire[i].req].kind = "Flush"
                          /\ rq[wire[i].req].oldtag = rq[r].tag
                          /\ wire[i].req > r

AbortedByVersion(r) == \* the client received the Rversion of a Tversion sent after r: the session was reset
  \E i \in 1..Len(wire) : rq[wire[i].req].kind = "Version" /\ wire[i].req > r

Answered(r) == \E i \in 1..Len(wire) : wire[i].req = r
(* a tag is busy while a request carrying it is unanswered and not flushed away, and also while a
   Tflush naming it is unanswered (flush(5): oldtag may be reused only once the Rflush arrives) *)
TagBusy(t) == \/ \E r \in 1..nreq : rq[r].tag = t /\ ~Answered(r) /\ ~FlushedAway(r) /\ ~AbortedByVersion(r)
              \/ \E q \in 1..nreq : rq[q].kind = "Flush" /\ rq[q].oldtag = t /\ ~Answered(q) /\ ~AbortedByVersion(q)

(* requests still linked into conn.reqs *)
RECURSIVE ChainOf(_)
ChainOf(h) == IF h = 0 THEN {} ELSE {h} \cup ChainOf(rq[h].next)
Linked == UNION {ChainOf(reqs[t]) : t \in Tags}

(* a Tversion is processed synchronously by the receive goroutine: nothing else is received meanwhile *)
RecvBusy == \E r \in 1..nreq : rq[r].kind = "Version" /\ (wpc[r] # "done" \/ stack[r] # <<>>)

(* recv goroutine: parse the next request, take a reply Fcall, link into the tag chain, spawn *)
Recv(kind, tag, fid, newfid, oldtag) ==
  /\ cstate = "open" /\ cpc = "run"
  /\ nreq < NReq
  /\ kind \in Kinds
  /\ ~RecvBusy
  /\ (kind = "Version") = (tag = NoTag)
  /\ IF kind = "Version"
       THEN fid = NoFid /\ newfid = NoFid /\ oldtag = 0 /\ NoTag # 0
     ELSE IF kind = "Flush"
       THEN /\ ~TagBusy(tag) /\ oldtag # tag /\ fid = NoFid /\ newfid = NoFid
            /\ TagBusy(oldtag)                             \* flush an outstanding tag
            /\ (NoTag # 0 => oldtag # NoTag)               \* nobody flushes a Tversion
       ELSE /\ oldtag = 0 /\ fid \in Fids
            /\ (kind = "Walk") => newfid \in Fids
            /\ (kind # "Walk") => newfid = NoFid
            /\ IF SharedTags
                 THEN \A r \in 1..nreq : (rq[r].tag = tag /\ TagBusy(tag)) => rq[r].kind # "Flush"
                 ELSE ~TagBusy(tag)
  /\ LET r == nreq + 1
         older == reqs[tag]
         fromPool == pool # <<>>
         id == IF fromPool THEN Head(pool) ELSE nfc + 1 IN
     /\ nreq' = r
     /\ pool' = IF fromPool THEN Tail(pool) ELSE pool
     /\ nfc' = IF fromPool THEN nfc ELSE nfc + 1
     /\ fc' = IF fromPool /\ FixStale THEN [fc EXCEPT ![id] = [kind |-> "none", for |-> 0]] ELSE fc
     /\ rq' = [rq EXCEPT ![r] = [NullRq EXCEPT !.kind = kind, !.tag = tag, !.fid = fid, !.newfid = newfid,
                                               !.oldtag = oldtag, !.next = older, !.rc = id],
                         ![IF older # 0 THEN older ELSE r].prev = IF older # 0 THEN r ELSE 0]
     /\ reqs' = [reqs EXCEPT ![tag] = r]
     /\ wpc' = [wpc EXCEPT ![r] = IF older = 0 THEN "start" ELSE "queued"]
  /\ UNCHANGED <<stack, act, fidref, spc, scur, outq, wire, impl, cstate, cpc, fdir, sstop, bound>>
  /\ UNCHANGED ghosts

-----------------------------------------------------------------------------
AtBase(g) == stack[g] = <<>>
(* link from one waiting flush to the next: as coded the same field as the head of a request's own
   waiters (so a flush that is itself being flushed loses one of the two) *)
Link(rq1, f) == IF FixChain THEN rq1[f].fnext ELSE rq1[f].flushreq
Top(g) == stack[g][Len(stack[g])]

(* PackR*(req.Rc, ...): overwrites the content of whatever Fcall req.Rc designates *)
Packed(f, r, kind) == [f EXCEPT ![rq[r].rc] = [kind |-> kind, for |-> r]]

(* DecRef bookkeeping: result of dropping n references of fid f in table fr/ds *)
DropRef(fr, f) == IF f = NoFid THEN fr ELSE [fr EXCEPT ![f] = IF @ > 0 THEN @ - 1 ELSE 0]

(* t.Respond() entered by thread g, on request table rq1: flips the responded bit;
   the first caller gets an activation parked at resp_unlink. Yields new <<rq, stack, act>>. *)
EnterRq(rq1, t) == [rq1 EXCEPT ![t].resp = TRUE, ![t].work = FALSE]
EnterStack(rq1, st1, g, t) == IF rq1[t].resp THEN st1 ELSE [st1 EXCEPT ![g] = Append(@, t)]
EnterAct(rq1, act1, t) == IF rq1[t].resp THEN act1
                          ELSE [act1 EXCEPT ![t] = [NullAct EXCEPT !.st = IF FixOrder THEN "post" ELSE "unlink",
                                                                   !.oldflush = rq1[t].flush]]

RespEnter(g, t, rq1) ==
  /\ rq' = EnterRq(rq1, t)
  /\ stack' = EnterStack(rq1, stack, g, t)
  /\ act' = EnterAct(rq1, act, t)

(* ---- worker process() ---- *)
WStart(r) ==
  /\ wpc[r] = "start" /\ AtBase(r)
  /\ IF rq[r].flush
       THEN /\ RespEnter(r, r, rq)
            /\ wpc' = [wpc EXCEPT ![r] = IF FixFallthrough THEN "ret" ELSE "dispatch"]
       ELSE /\ rq' = [rq EXCEPT ![r].work = TRUE]
            /\ wpc' = [wpc EXCEPT ![r] = "dispatch"]
            /\ UNCHANGED <<stack, act>>
  /\ UNCHANGED <<nreq, reqs, fidref, spc, scur, outq, wire, impl, fc, pool, nfc, cstate, cpc, fdir, sstop, bound>>
  /\ UNCHANGED ghosts

(* worker whose process() returned right after the flushed-path Respond (fixed code): no proc_end *)
WRet(r) ==
  /\ wpc[r] = "ret" /\ AtBase(r)
  /\ wpc' = [wpc EXCEPT ![r] = "done"]
  /\ UNCHANGED <<nreq, rq, reqs, stack, act, fidref, spc, scur, outq, wire, impl, fc, pool, nfc, cstate, cpc, fdir, sstop, bound>>
  /\ UNCHANGED ghosts

(* FidGet: a fid under construction (FidNew done, creating Tattach/Twalk not post-processed yet) is
   not found.  Derived: the creator still holds it (hfid/hnew are reset by RPost) and it was never bound. *)
Pending(f) ==
  /\ FixPending /\ fidref[f] > 0 /\ ~bound[f] /\ creator[f] # 0
  /\ LET c == creator[f] IN
       \/ (rq[c].kind = "Attach" /\ rq[c].hfid = f)
       \/ (rq[c].kind = "Walk" /\ rq[c].hnew = f /\ rq[c].hfid # f)
Known(f) == fidref[f] > 0 /\ ~Pending(f)

Forward(r, fr, hf, hn, cr, fd) ==  \* the SrvReqOps method is entered; it parks in the scripted implementation
  /\ fidref' = fr /\ fdir' = fd
  /\ bound' = [f \in Fids |-> IF fidref[f] = 0 /\ fr[f] > 0 THEN FALSE ELSE bound[f]]   \* FidNew: a fresh, unbound fid
  /\ made' = [f \in Fids |-> made[f] + (IF fidref[f] = 0 /\ fr[f] > 0 THEN 1 ELSE 0)]
  /\ rq' = [rq EXCEPT ![r].hfid = hf, ![r].hnew = hn]
  /\ impl' = [impl EXCEPT ![r] = "called"]
  /\ badcall' = (badcall \/ r \in cancelled)
  /\ calls' = Append(calls, r)
  /\ creator' = cr
  /\ wpc' = [wpc EXCEPT ![r] = "impl"]
  /\ UNCHANGED <<stack, act, fc>>

Refuse(r, fr, hf) ==               \* RespondError(...) by the framework
  /\ fc' = Packed(fc, r, "Rerror")
  /\ fidref' = fr /\ UNCHANGED <<fdir, bound, made>>
  /\ RespEnter(r, r, [rq EXCEPT ![r].hfid = hf])
  /\ wpc' = [wpc EXCEPT ![r] = "end"]
  /\ UNCHANGED <<impl, badcall, calls, creator>>

WDispatch(r) ==
  /\ wpc[r] = "dispatch" /\ AtBase(r)
  /\ LET k == rq[r].kind  f == rq[r].fid  nf == rq[r].newfid IN
     CASE k \in {"Stat", "Clunk"} ->
            IF ~Known(f) THEN Refuse(r, fidref, NoFid)
            ELSE Forward(r, [fidref EXCEPT ![f] = @ + 1], f, NoFid, creator, fdir)
       [] k = "Attach" ->          \* FidNew: a fresh SrvFid has type 0 until attachPost
            IF fidref[f] # 0 THEN Refuse(r, fidref, NoFid)
            ELSE Forward(r, [fidref EXCEPT ![f] = 1], f, NoFid, [creator EXCEPT ![f] = r], [fdir EXCEPT ![f] = FALSE])
       [] k = "Walk" ->            \* the harness walks by name, so the source must be a directory
            IF ~Known(f) THEN Refuse(r, fidref, NoFid)
            ELSE IF ~fdir[f] THEN Refuse(r, [fidref EXCEPT ![f] = @ + 1], f)
            ELSE IF nf = f THEN Forward(r, [fidref EXCEPT ![f] = @ + 2], f, f, creator, fdir)
            ELSE IF fidref[nf] # 0 THEN Refuse(r, [fidref EXCEPT ![f] = @ + 1], f)
            ELSE Forward(r, [fidref EXCEPT ![f] = @ + 1, ![nf] = 1], f, nf, [creator EXCEPT ![nf] = r],
                         [fdir EXCEPT ![nf] = fdir[f]])
       [] k = "Version" ->   \* srv.version: every linked request with another tag is flagged flushed, then Rversion
            LET marked == {x \in 1..nreq : x \in Linked /\ rq[x].tag # NoTag} IN
            /\ fc' = Packed(fc, r, "RVersion")
            /\ RespEnter(r, r, [x \in ReqIds |-> IF x \in marked THEN [rq[x] EXCEPT !.flush = TRUE] ELSE rq[x]])
            /\ wpc' = [wpc EXCEPT ![r] = "end"]
            /\ UNCHANGED <<fidref, impl, badcall, calls, creator, fdir, bound, made>>
       [] k = "Flush" ->     \* srv.flush up to flush_status: pack Rflush, chain onto the target under conn.Lock
            LET tgt == reqs[rq[r].oldtag] IN
            /\ fc' = Packed(fc, r, "RFlush")
            /\ rq' = IF tgt # 0
                       THEN IF FixChain
                              THEN [rq EXCEPT ![r].fnext = rq[tgt].flushreq, ![r].tgt = tgt, ![tgt].flushreq = r,
                                              ![r].tq = (rq[tgt].next # 0)]
                              ELSE [rq EXCEPT ![r].flushreq = rq[tgt].flushreq, ![r].tgt = tgt,
                                              ![tgt].flushreq = r, ![r].tq = (rq[tgt].next # 0)]
                       ELSE rq
            /\ wpc' = [wpc EXCEPT ![r] = "flush2"]
            /\ UNCHANGED <<stack, act, fidref, impl, badcall, calls, creator, fdir, bound, made>>
  /\ UNCHANGED <<nreq, reqs, spc, scur, outq, wire, pool, nfc, cstate, cpc, sstop>>
  /\ UNCHANGED <<cancelled, crashed, destroyed, extra, closedn>>

WFlush2(r) ==                  \* flush_status -> flush_act (or Respond at once when no target)
  /\ wpc[r] = "flush2" /\ AtBase(r)
  /\ LET tgt == rq[r].tgt IN
     IF tgt = 0
       THEN /\ RespEnter(r, r, rq) /\ wpc' = [wpc EXCEPT ![r] = "end"]
       ELSE IF ~(rq[tgt].work \/ rq[tgt].saved)
              THEN /\ rq' = [rq EXCEPT ![tgt].flush = TRUE]
                   /\ wpc' = [wpc EXCEPT ![r] = "flush3c"]
                   /\ UNCHANGED <<stack, act>>
              ELSE /\ wpc' = [wpc EXCEPT ![r] = "flush3o"]
                   /\ UNCHANGED <<rq, stack, act>>
  /\ UNCHANGED <<nreq, reqs, fidref, spc, scur, outq, wire, impl, fc, pool, nfc, cstate, cpc, fdir, sstop, bound>>
  /\ UNCHANGED ghosts

WFlush3Cancel(r) ==            \* flush_act: r.Respond() on the not-yet-started target
  /\ wpc[r] = "flush3c" /\ AtBase(r)
  /\ IF FixQueued /\ rq[r].tq
       THEN UNCHANGED <<rq, stack, act>>     \* queued behind older requests of its tag: its own process() answers it in turn
       ELSE RespEnter(r, rq[r].tgt, rq)
  /\ wpc' = [wpc EXCEPT ![r] = "end"]
  /\ UNCHANGED <<nreq, reqs, fidref, spc, scur, outq, wire, impl, fc, pool, nfc, cstate, cpc, fdir, sstop, bound>>
  /\ UNCHANGED ghosts

(* flush_act with the target in the implementation: FlushOp.Flush(tgt) if provided.
   The implementation may cancel (tgt.Flush()) only a request it has been given and not answered. *)
WFlush3Op(r, cancel) ==
  /\ wpc[r] = "flush3o" /\ AtBase(r)
  /\ cancel => (HasFlushOp /\ impl[rq[r].tgt] = "called")
  /\ IF cancel
       THEN /\ RespEnter(r, rq[r].tgt, [rq EXCEPT ![rq[r].tgt].flush = TRUE])
            /\ impl' = [impl EXCEPT ![rq[r].tgt] = "cancelled"]   \* having cancelled it, the implementation does not answer it
       ELSE UNCHANGED <<rq, stack, act, impl>>
  /\ wpc' = [wpc EXCEPT ![r] = "end"]
  /\ UNCHANGED <<nreq, reqs, fidref, spc, scur, outq, wire, fc, pool, nfc, cstate, cpc, fdir, sstop, bound>>
  /\ UNCHANGED ghosts

(* the op call of a request the implementation has cancelled returns without answering *)
ImplAbort(r) ==
  /\ wpc[r] = "impl" /\ AtBase(r) /\ impl[r] = "cancelled"
  /\ wpc' = [wpc EXCEPT ![r] = "end"]
  /\ UNCHANGED <<nreq, rq, reqs, stack, act, fidref, spc, scur, outq, wire, impl, fc, pool, nfc, cstate, cpc, fdir, sstop, bound>>
  /\ UNCHANGED ghosts

RKind(k, out) == IF out = "err" THEN "Rerror" ELSE "R" \o k
Outcomes(k) == IF k = "Walk" THEN {"ok", "partial", "err"} ELSE {"ok", "err"}

(* the implementation answers inside the op call *)
ImplRespond(r, out) ==
  /\ wpc[r] = "impl" /\ AtBase(r) /\ impl[r] = "called"
  /\ out \in Outcomes(rq[r].kind)
  /\ impl' = [impl EXCEPT ![r] = "answered"]
  /\ fc' = Packed(fc, r, IF out = "partial" THEN "RWalkPartial" ELSE RKind(rq[r].kind, out))
  /\ RespEnter(r, r, rq)
  /\ wpc' = [wpc EXCEPT ![r] = "end"]
  /\ UNCHANGED <<nreq, reqs, fidref, spc, scur, outq, wire, pool, nfc, cstate, cpc, fdir, sstop, bound>>
  /\ UNCHANGED ghosts

(* ... or returns without answering and answers later from a goroutine of its own *)
ImplReturn(r) ==
  /\ Late
  /\ wpc[r] = "impl" /\ AtBase(r) /\ impl[r] = "called"
  /\ wpc' = [wpc EXCEPT ![r] = "end"]
  /\ UNCHANGED <<nreq, rq, reqs, stack, act, fidref, spc, scur, outq, wire, impl, fc, pool, nfc, cstate, cpc, fdir, sstop, bound>>
  /\ UNCHANGED ghosts

ImplLate(r, out) ==
  /\ impl[r] = "called" /\ wpc[r] \in {"end", "done"} /\ AtBase(Async(r))
  /\ out \in Outcomes(rq[r].kind)
  /\ impl' = [impl EXCEPT ![r] = "answered"]
  /\ fc' = Packed(fc, r, IF out = "partial" THEN "RWalkPartial" ELSE RKind(rq[r].kind, out))
  /\ RespEnter(Async(r), r, rq)
  /\ UNCHANGED <<nreq, reqs, wpc, fidref, spc, scur, outq, wire, pool, nfc, cstate, cpc, fdir, sstop, bound>>
  /\ UNCHANGED ghosts

(* an extra answer (RespondError) to an already answered request whose reply buffer the request
   still owns (not yet handed back to the pool): re-packs the buffer, then Respond returns at once *)
RcOwned(r) == ~\E i \in 1..Len(wire) : wire[i].req = r
ImplExtra(r) ==      \* a goroutine of the implementation calls r.RespondError again: re-pack, Respond returns at once
  /\ Extra /\ impl[r] = "answered" /\ ~extra[r] /\ rq[r].kind # "Flush"
  /\ RcOwned(r) /\ ~(spc = "writing" /\ scur = r)
  /\ extra' = [extra EXCEPT ![r] = TRUE]
  /\ fc' = Packed(fc, r, "Rerror")
  /\ UNCHANGED <<nreq, rq, reqs, wpc, stack, act, fidref, spc, scur, outq, wire, impl, pool, nfc, cstate, cpc, fdir, sstop, bound>>
  /\ UNCHANGED <<cancelled, badcall, crashed, destroyed, creator, calls, closedn, made>>

WEnd(r) ==                     \* proc_end: clear work, remember that no answer was produced
  /\ wpc[r] = "end" /\ AtBase(r)
  /\ rq' = [rq EXCEPT ![r].work = FALSE, ![r].saved = ~rq[r].resp]
  /\ wpc' = [wpc EXCEPT ![r] = "done"]
  /\ UNCHANGED <<nreq, reqs, stack, act, fidref, spc, scur, outq, wire, impl, fc, pool, nfc, cstate, cpc, fdir, sstop, bound>>
  /\ UNCHANGED ghosts

-----------------------------------------------------------------------------
(* ---- Respond activation of request t, run by thread g ---- *)
Running(g, t, st) == stack[g] # <<>> /\ Top(g) = t /\ act[t].st = st

RECURSIVE ChainTail(_)
ChainTail(f) == IF rq[f].fnext = 0 THEN f ELSE ChainTail(rq[f].fnext)
RUnlink(g, t) ==               \* the conn.Lock section of Respond, as coded
  /\ Running(g, t, "unlink")
  /\ LET nx == rq[t].prev IN
     IF nx # 0
       THEN LET hasOwn == rq[nx].flushreq # 0
                moved  == rq[t].flushreq # 0
                append == FixAppend /\ moved /\ hasOwn
                tl == IF append THEN ChainTail(rq[nx].flushreq) ELSE 0 IN
            /\ rq' = [x \in DOMAIN rq |->
                        IF x = nx THEN [rq[x] EXCEPT !.next = 0, !.flushreq = IF moved /\ ~hasOwn THEN rq[t].flushreq ELSE @,
                                                       !.fnext = IF append /\ tl = nx THEN rq[t].flushreq ELSE @]
                        ELSE IF append /\ x = tl THEN [rq[x] EXCEPT !.fnext = rq[t].flushreq]
                        ELSE rq[x]]
            /\ act' = [act EXCEPT ![t].st = IF FixOrder THEN "next" ELSE "post", ![t].cur = 0,
                                  ![t].nextreq = IF moved /\ hasOwn /\ ~FixAppend THEN rq[t].flushreq ELSE nx]
            /\ UNCHANGED reqs
       ELSE /\ reqs' = [reqs EXCEPT ![rq[t].tag] = 0]
            /\ act' = [act EXCEPT ![t].st = IF FixOrder THEN "next" ELSE "post", ![t].cur = rq[t].flushreq, ![t].nextreq = 0]
            /\ UNCHANGED rq
  /\ UNCHANGED <<nreq, wpc, stack, fidref, spc, scur, outq, wire, impl, fc, pool, nfc, cstate, cpc, fdir, sstop, bound>>
  /\ UNCHANGED ghosts

(* PostProcess: the *Post function chosen by the request type reads the CURRENT type of req.Rc *)
RPost(g, t) ==
  /\ Running(g, t, "post")
  /\ LET k  == rq[t].kind
         rk == fc[rq[t].rc].kind
         hf == rq[t].hfid
         hn == rq[t].hnew
         crash == (k = "Attach" /\ rk = "RAttach" /\ hf = NoFid)       \* attachPost: req.Fid.Type on nil
         closedNow == cpc = "done"                                     \* conn.closed
         \* fids that get the table's reference now, and the one that loses it
         binds == (IF k = "Attach" /\ rk = "RAttach" /\ hf # NoFid THEN {hf} ELSE {})
                  \cup (IF k = "Walk" /\ rk = "RWalk" /\ hn # NoFid /\ hn # hf THEN {hn} ELSE {})
         doBind == IF FixBound THEN {f \in binds : ~closedNow /\ ~bound[f]} ELSE binds
         unb == IF k = "Clunk" /\ rk = "RClunk" /\ hf # NoFid /\ (~FixBound \/ bound[hf]) THEN {hf} ELSE {}
         inc  == [f \in Fids |-> fidref[f] + (IF f \in doBind THEN 1 ELSE 0)]
         clk  == [f \in Fids |-> IF f \in unb /\ inc[f] > 0 THEN inc[f] - 1 ELSE inc[f]]
         d1   == DropRef(clk, hf)
         d2   == DropRef(d1, hn)
         gone == {f \in Fids : fidref[f] > 0 /\ d2[f] = 0} IN
     /\ crashed' = (crashed \/ crash)
     /\ fidref' = d2
     /\ bound' = [f \in Fids |-> IF f \in gone \/ f \in unb THEN FALSE ELSE IF f \in doBind THEN TRUE ELSE bound[f]]
     /\ fdir' = IF k = "Attach" /\ rk = "RAttach" /\ hf # NoFid THEN [fdir EXCEPT ![hf] = TRUE] ELSE fdir
     /\ destroyed' = [f \in Fids |-> destroyed[f] + (IF f \in gone THEN 1 ELSE 0)]
     /\ rq' = [rq EXCEPT ![t].hfid = NoFid, ![t].hnew = NoFid]
  /\ act' = [act EXCEPT ![t].st = "enq"]
  /\ UNCHANGED <<nreq, reqs, wpc, stack, spc, scur, outq, wire, impl, fc, pool, nfc, cstate, cpc, sstop>>
  /\ UNCHANGED <<cancelled, badcall, creator, calls, extra, closedn, made>>

(* conn.reqout <- req, skipped for requests whose status had the flush bit when Respond was entered *)
REnq(g, t) ==
  /\ Running(g, t, "enq")
  /\ IF act[t].oldflush THEN UNCHANGED <<spc, scur, outq>>
     ELSE IF spc = "gone" \/ sstop
            THEN /\ FixClose /\ UNCHANGED <<spc, scur, outq>>   \* unfixed: blocks forever (the sender has exited)
     ELSE IF spc = "idle" THEN /\ spc' = "got" /\ scur' = t /\ UNCHANGED outq
     ELSE /\ Len(outq) < Maxpend /\ outq' = Append(outq, t) /\ UNCHANGED <<spc, scur>>
  /\ act' = [act EXCEPT ![t].st = IF FixOrder THEN "unlink" ELSE "next"]
  /\ UNCHANGED <<nreq, rq, reqs, wpc, stack, fidref, wire, impl, fc, pool, nfc, cstate, cpc, fdir, sstop, bound>>
  /\ UNCHANGED ghosts

(* Unwinding: after "go nextreq.process()" the loop over the collected flush chain runs; each
   freq.Respond() either returns at once (already responded) or parks a nested activation at
   resp_unlink; a finished activation returns to its caller. *)
RECURSIVE Unwind(_, _, _, _)
Unwind(g, rq1, st1, act1) ==
  IF st1[g] = <<>> THEN <<rq1, st1, act1>>
  ELSE LET t == st1[g][Len(st1[g])] IN
       IF act1[t].st # "loop" THEN <<rq1, st1, act1>>
       ELSE LET f == act1[t].cur IN
            IF f = 0
              THEN Unwind(g, rq1, [st1 EXCEPT ![g] = SubSeq(@, 1, Len(@) - 1)],
                          [act1 EXCEPT ![t].st = "done"])
              ELSE LET act2 == [act1 EXCEPT ![t].cur = Link(rq1, f)] IN
                   IF rq1[f].resp
                     THEN Unwind(g, EnterRq(rq1, f), st1, act2)
                     ELSE <<EnterRq(rq1, f), EnterStack(rq1, st1, g, f), EnterAct(rq1, act2, f)>>

RNext(g, t) ==                 \* resp_next: go nextreq.process(); then the flush loop / return
  /\ Running(g, t, "next")
  /\ LET nx == act[t].nextreq
         u == Unwind(g, rq, stack, [act EXCEPT ![t].st = "loop"]) IN
     /\ wpc' = IF nx # 0 THEN [wpc EXCEPT ![nx] = "start"] ELSE wpc
     /\ rq' = u[1] /\ stack' = u[2] /\ act' = u[3]
  /\ UNCHANGED <<nreq, reqs, fidref, spc, scur, outq, wire, impl, fc, pool, nfc, cstate, cpc, fdir, sstop, bound>>
  /\ UNCHANGED ghosts

-----------------------------------------------------------------------------
(* ---- send goroutine ---- *)
SWrite ==                      \* send_got: SetTag, then blocked in Write until the client reads
  /\ spc = "got"
  /\ spc' = "writing"
  /\ crashed' = (crashed \/ fc[rq[scur].rc].kind = "none")   \* SetTag on a reply that was never packed
  /\ UNCHANGED <<nreq, rq, reqs, wpc, stack, act, fidref, scur, outq, wire, impl, fc, pool, nfc, cstate, cpc, fdir, sstop, bound>>
  /\ UNCHANGED <<cancelled, badcall, destroyed, creator, calls, extra, closedn, made>>

Replies(r) == {i \in 1..Len(wire) : wire[i].req = r}

SenderNext == \* after a write (or a failed write): recycle the Fcall, loop to select
  /\ pool' = IF Len(pool) < PoolCap THEN Append(pool, rq[scur].rc) ELSE pool
  /\ IF sstop THEN /\ spc' = "gone" /\ scur' = 0 /\ UNCHANGED outq    \* conn.done is closed: the sender returns
     ELSE IF outq # <<>> THEN /\ spc' = "got" /\ scur' = Head(outq) /\ outq' = Tail(outq)
     ELSE /\ spc' = "idle" /\ scur' = 0 /\ UNCHANGED outq

CRecv ==                       \* the client reads the frame (content as it is NOW); sender recycles, selects
  /\ spc = "writing" /\ cstate = "open"
  /\ wire' = Append(wire, [tag |-> rq[scur].tag, req |-> scur,
                           kind |-> fc[rq[scur].rc].kind, for |-> fc[rq[scur].rc].for])
  /\ cancelled' = IF rq[scur].kind = "Flush" /\ rq[scur].tgt # 0 /\ Replies(rq[scur].tgt) = {}
                    THEN cancelled \cup {rq[scur].tgt} ELSE cancelled
  /\ SenderNext
  /\ UNCHANGED <<nreq, rq, reqs, wpc, stack, act, fidref, impl, fc, nfc, cstate, cpc, fdir, sstop, bound>>
  /\ UNCHANGED <<badcall, crashed, destroyed, creator, calls, extra, closedn, made>>

-----------------------------------------------------------------------------
(* ---- disconnect ---- *)
ClientClose ==                 \* the client closes its end: recv sees EOF and parks at close_enter;
  /\ CanClose /\ cstate = "open" /\ cpc = "run" /\ ~RecvBusy     \* a Write in progress fails, the sender recycles and selects
  /\ cstate' = "eof" /\ cpc' = "enter"
  /\ IF spc = "writing" THEN SenderNext ELSE UNCHANGED <<spc, scur, outq, pool>>
  /\ UNCHANGED <<nreq, rq, reqs, wpc, stack, act, fidref, wire, impl, fc, nfc, fdir, sstop, bound>>
  /\ UNCHANGED ghosts

SWriteClosed ==                \* send_got after the client has gone: the write fails at once
  /\ spc = "got" /\ cstate # "open"
  /\ SenderNext
  /\ crashed' = (crashed \/ fc[rq[scur].rc].kind = "none")
  /\ UNCHANGED <<nreq, rq, reqs, wpc, stack, act, fidref, wire, impl, fc, nfc, cstate, cpc, fdir, sstop, bound>>
  /\ UNCHANGED <<cancelled, badcall, destroyed, creator, calls, extra, closedn, made>>

CloseEnter ==                  \* close_enter: stop the sender, unregister, ConnClosed callback
  /\ cpc = "enter"
  /\ IF FixClose
       THEN \* close(conn.done): does not wait; the sender returns when it next reaches its select
            IF spc = "idle" THEN /\ spc' = "gone" /\ UNCHANGED sstop
            ELSE /\ sstop' = TRUE /\ UNCHANGED spc
       ELSE \* conn.done <- true: rendezvous, needs the sender at its select
            /\ spc = "idle" /\ spc' = "gone" /\ UNCHANGED sstop
  /\ cpc' = "destroy" /\ closedn' = closedn + 1
  /\ UNCHANGED <<nreq, rq, reqs, wpc, stack, act, fidref, scur, outq, wire, impl, fc, pool, nfc, cstate, fdir, bound>>
  /\ UNCHANGED <<cancelled, badcall, crashed, destroyed, creator, calls, extra, made>>

CloseDestroy ==                \* close_destroy
  /\ cpc = "destroy"
  /\ cpc' = "done"
  /\ IF FixBound
       THEN \* conn.closed := true; every bound fid loses the table's reference: destroyed now if nobody uses it
            LET d == [f \in Fids |-> IF bound[f] /\ fidref[f] > 0 THEN fidref[f] - 1 ELSE fidref[f]] IN
            /\ fidref' = d
            /\ bound' = [f \in Fids |-> FALSE]
            /\ destroyed' = [f \in Fids |-> destroyed[f] + (IF fidref[f] > 0 /\ d[f] = 0 THEN 1 ELSE 0)]
       ELSE \* as found: FidDestroy for every fid in the table, table and counts untouched
            /\ destroyed' = [f \in Fids |-> destroyed[f] + (IF fidref[f] > 0 THEN 1 ELSE 0)]
            /\ UNCHANGED <<fidref, bound>>
  /\ UNCHANGED <<nreq, rq, reqs, wpc, stack, act, spc, scur, outq, wire, impl, fc, pool, nfc, cstate, fdir, sstop>>
  /\ UNCHANGED <<cancelled, badcall, crashed, creator, calls, extra, closedn, made>>

-----------------------------------------------------------------------------
(* Abstraction shared with the harness (harness/srvh Ctl.Abstract): what the gate controller can
   observe of the implementation, in this specification's vocabulary. *)
PKey(point, r) == point \o ":" \o ToString(r)

ThreadPark(g) ==
  IF stack[g] # <<>>
    THEN LET t == Top(g) IN
         CASE act[t].st = "unlink" -> {PKey("resp_unlink", t)}
           [] act[t].st = "post"   -> {PKey("resp_post", t)}
           [] act[t].st = "enq"    -> {PKey("resp_enq", t)}
           [] act[t].st = "next"   -> {PKey("resp_next", t)}
           [] OTHER -> {}
    ELSE IF g \in ReqIds
      THEN CASE wpc[g] = "start"    -> {PKey("proc_start", g)}
             [] wpc[g] = "dispatch" -> {PKey("proc_dispatch", g)}
             [] wpc[g] = "impl"     -> {PKey("impl", g)}
             [] wpc[g] = "flush2"   -> {PKey("flush_status", g)}
             [] wpc[g] \in {"flush3c", "flush3o"} -> {PKey("flush_act", g)}
             [] wpc[g] = "end"      -> {PKey("proc_end", g)}
             [] OTHER -> {}
      ELSE {}

AlphaParked ==
  UNION {ThreadPark(g) : g \in Threads}
  \cup (IF spc = "got" THEN {PKey("send_got", scur)} ELSE {})
  \cup (IF spc = "writing" THEN {PKey("swriting", 0)} ELSE {})
  \cup (IF cpc = "enter" THEN {PKey("close_enter", 0)} ELSE {})
  \cup (IF cpc = "destroy" THEN {PKey("close_destroy", 0)} ELSE {})

AlphaRq(r) == <<rq[r].flush, rq[r].work, rq[r].resp, rq[r].saved, rq[r].next, rq[r].prev, rq[r].flushreq>>

-----------------------------------------------------------------------------
Next ==
  \/ \E k \in Kinds, t \in Tags, f \in Fids \cup {NoFid}, nf \in Fids \cup {NoFid}, o \in Tags \cup {0} :
        Recv(k, t, f, nf, o)
  \/ \E r \in ReqIds :
       \/ WStart(r) \/ WRet(r) \/ WDispatch(r) \/ WFlush2(r) \/ WFlush3Cancel(r)
       \/ \E c \in BOOLEAN : WFlush3Op(r, c)
       \/ \E o \in {"ok", "partial", "err"} : ImplRespond(r, o) \/ ImplLate(r, o)
       \/ ImplReturn(r) \/ ImplAbort(r) \/ ImplExtra(r) \/ WEnd(r)
  \/ \E g \in Threads, t \in ReqIds :
       RUnlink(g, t) \/ RPost(g, t) \/ REnq(g, t) \/ RNext(g, t)
  \/ SWrite \/ CRecv \/ ClientClose \/ SWriteClosed \/ CloseEnter \/ CloseDestroy

Spec == Init /\ [][Next]_vars

(* fairness for liveness checking: every server-side step and every implementation answer to a
   request not in Held eventually happens; the client keeps reading *)
CONSTANT Held
SrvStep ==
  \/ \E r \in ReqIds : WStart(r) \/ WRet(r) \/ WDispatch(r) \/ WFlush2(r) \/ WFlush3Cancel(r)
                       \/ WFlush3Op(r, FALSE) \/ WEnd(r) \/ ImplAbort(r)
  \/ \E g \in Threads, t \in ReqIds : RUnlink(g, t) \/ RPost(g, t) \/ REnq(g, t) \/ RNext(g, t)
  \/ SWrite \/ CRecv \/ SWriteClosed \/ CloseEnter \/ CloseDestroy
ImplStep == \E r \in ReqIds \ Held : ImplRespond(r, "ok")
FairSpec == Spec /\ WF_vars(SrvStep) /\ WF_vars(ImplStep)

-----------------------------------------------------------------------------
(* Properties *)
TypeOK == /\ nreq \in 0..NReq
          /\ \A f \in Fids : fidref[f] \in 0..(2*NReq + 2)

NoCrash == ~crashed

(* C03 *)
AtMostOneReply == \A r \in ReqIds : Cardinality(Replies(r)) <= 1
ReplyMatches == \A i \in 1..Len(wire) :
                   /\ wire[i].for = wire[i].req
                   /\ wire[i].tag = rq[wire[i].req].tag
                   /\ wire[i].kind \in {"R" \o rq[wire[i].req].kind, "Rerror", "RWalkPartial"}
ImplIdle == \A x \in 1..nreq : impl[x] # "called"
Quiescent == /\ \A r \in ReqIds : wpc[r] \in {"none", "done", "queued"}
             /\ \A g \in Threads : stack[g] = <<>>
             /\ spc \in {"idle", "gone"} /\ cpc \in {"run", "done"}
AllAnswered == (Quiescent /\ ImplIdle /\ cstate = "open") =>
                  \A r \in 1..nreq : (Replies(r) # {} \/ r \in cancelled \/ rq[r].flush)
CancelledOnlyByFlush == \A r \in 1..nreq : (rq[r].flush /\ Replies(r) = {} /\ Quiescent /\ ImplIdle /\ cstate = "open")
                            => \E q \in 1..nreq : rq[q].kind = "Flush" /\ rq[q].tgt = r /\ Replies(q) # {}

VersionAnswered == (Quiescent /\ cstate = "open") =>
                     \A r \in 1..nreq : rq[r].kind = "Version" => Cardinality(Replies(r)) = 1

(* C07 *)
FlushOrder == \A i, j \in 1..Len(wire) :
                 (rq[wire[i].req].kind = "Flush" /\ wire[i].kind = "RFlush"
                  /\ wire[j].tag = rq[wire[i].req].oldtag /\ wire[j].req < wire[i].req) => j < i
NoCallAfterCancel == ~badcall
(* every Tflush is answered exactly once -- except one that was itself cancelled by a later Tflush
   (a flushed request, flushes included, gets at most one reply) *)
FlushAnswered == (Quiescent /\ ImplIdle /\ cstate = "open") =>
                    \A r \in 1..nreq : (rq[r].kind = "Flush" /\ r \notin cancelled /\ ~rq[r].flush)
                                           => Cardinality(Replies(r)) = 1
CancelLeavesNothing == (Quiescent /\ ImplIdle) =>
                          \A f \in Fids : (fidref[f] > 0 /\ creator[f] # 0) => creator[f] \notin cancelled

(* C08 *)
InImpl(r) == wpc[r] = "impl" \/ (impl[r] = "called")
TagGroupFIFO ==
  /\ \A a, b \in 1..nreq : (a # b /\ rq[a].tag = rq[b].tag /\ rq[a].kind # "Flush" /\ rq[b].kind # "Flush"
                            /\ InImpl(a) /\ InImpl(b)) => FALSE
  /\ \A i, j \in 1..Len(calls) : (i < j /\ rq[calls[i]].tag = rq[calls[j]].tag) => calls[i] < calls[j]
  /\ \A i, j \in 1..Len(wire) : (i < j /\ wire[i].tag = wire[j].tag) => wire[i].req < wire[j].req
NoQueuedForever == (Quiescent /\ ImplIdle /\ cstate = "open") => \A r \in 1..nreq : wpc[r] # "queued"

(* C11 *)
ClosedOnce == closedn <= 1
DestroyAtMostOnce == \A f \in Fids : destroyed[f] <= 1 + Cardinality({r \in 1..nreq : creator[f] = r /\ FALSE})
Terminal == /\ cpc = "done" /\ ImplIdle
            /\ \A r \in 1..nreq : wpc[r] \in {"done", "queued"} \/ ~ENABLED Next
(* C11: each fid is reported destroyed at most once per binding, and after the disconnect, once nothing
   runs any more, no fid is left *)
DestroyedOnce == \A f \in Fids : destroyed[f] <= 1 + Cardinality({r \in 1..nreq : rq[r].kind \in {"Attach", "Walk"}})
DestroyNeverExceeds == \A f \in Fids : destroyed[f] <= made[f]
AllDestroyedOnce == (cpc = "done" /\ Quiescent /\ ImplIdle) => \A f \in Fids : destroyed[f] = made[f]
AllReleased == (cpc = "done" /\ Quiescent /\ ImplIdle) => \A f \in Fids : fidref[f] = 0
(* threads never stuck: in a state where nothing is enabled, every started thread is done *)
NoStuckThread == (~ENABLED Next) => (\A r \in 1..nreq : wpc[r] \in {"done", "queued"}) /\ (\A g \in Threads : stack[g] = <<>>)

(* liveness (C08): a request not held by the implementation is eventually answered, whatever the
   held ones do.  Checked under FairSpec. *)
Progress == \A r \in ReqIds \ Held :
              ((r <= nreq) /\ rq[r].kind # "Flush" /\ ~(\E h \in Held : h <= nreq /\ rq[h].tag = rq[r].tag))
                  ~> (Replies(r) # {} \/ cstate # "open" \/ rq[r].flush)
=============================================================================
