---------------------------- MODULE Srv9PTrace ----------------------------
(* Trace validation for Srv9P: every line of the ndjson file is one controller step of the real
   server (harness/srvh), named by the Srv9P action it claims to be, with the abstraction of the
   implementation state observed after the step.  A line is accepted iff the named action is
   enabled in the specification state reached so far and leads to a state whose abstraction
   (Srv9P!AlphaParked, AlphaRq, reqs, fidref, wire length) equals the logged one.

   Several behaviours are concatenated; a "Reset" line (with the case id and per-case constants
   that vary: none here) starts the next one.  A line that cannot be matched marks the case as
   rejected (printed as REJECT) and the rest of the case is skipped, so that one divergence does
   not hide the others. *)
EXTENDS Srv9P, Json, IOUtils

TraceFile == IF "TRACE_FILE" \in DOMAIN IOEnv THEN IOEnv.TRACE_FILE ELSE "trace.ndjson"
Trace == ndJsonDeserialize(TraceFile)

VARIABLES l, failed, case, done
tvars == <<l, failed, case, done>>

Line == Trace[l]
Arg(i) == Line.args[i]

ResetVars ==
  /\ nreq' = 0
  /\ rq' = [r \in ReqIds |-> NullRq]
  /\ reqs' = [t \in Tags |-> 0]
  /\ wpc' = [r \in ReqIds |-> "none"]
  /\ stack' = [g \in Threads |-> <<>>]
  /\ act' = [r \in ReqIds |-> NullAct]
  /\ fidref' = [f \in Fids |-> IF f \in InitFids THEN 1 ELSE 0]
  /\ spc' = "idle" /\ scur' = 0 /\ outq' = <<>>
  /\ wire' = <<>>
  /\ impl' = [r \in ReqIds |-> "none"]
  /\ fc' = [i \in ReqIds |-> [kind |-> "none", for |-> 0]]
  /\ pool' = <<>> /\ nfc' = 0
  /\ cstate' = "open" /\ cpc' = "run"
  /\ fdir' = [f \in Fids |-> f \in InitFids]
  /\ sstop' = FALSE
  /\ bound' = [f \in Fids |-> f \in InitFids]
  /\ cancelled' = {} /\ badcall' = FALSE /\ crashed' = FALSE
  /\ destroyed' = [f \in Fids |-> 0]
  /\ creator' = [f \in Fids |-> 0]
  /\ calls' = <<>>
  /\ extra' = [r \in ReqIds |-> FALSE]
  /\ closedn' = 0
  /\ made' = [f \in Fids |-> IF f \in InitFids THEN 1 ELSE 0]

TraceInit == Init /\ l = 1 /\ failed = FALSE /\ case = 0 /\ done = FALSE

SeqToSet(s) == {s[i] : i \in 1..Len(s)}

(* the logged abstraction must equal the abstraction of the successor state *)
PostMatches ==
  LET p == Line.post IN
  /\ SeqToSet(p.parked) = AlphaParked'
  /\ p.wire = Len(wire')
  /\ nreq' = Len(p.rq)
  /\ \A r \in 1..Len(p.rq) : p.rq[r] = AlphaRq(r)'
  /\ \A t \in Tags : p.reqs[t] = reqs'[t]
  /\ \A f \in Fids : p.fidref[f] = fidref'[f]

Ev(name) == l <= Len(Trace) /\ ~failed /\ Line.act = name

Step ==
  \/ Ev("Recv") /\ Recv(Arg(1), Arg(2), Arg(3), Arg(4), Arg(5))
  \/ Ev("WStart") /\ WStart(Arg(1))
  \/ Ev("WDispatch") /\ WDispatch(Arg(1))
  \/ Ev("WFlush2") /\ WFlush2(Arg(1))
  \/ Ev("WFlush3") /\ (WFlush3Cancel(Arg(1)) \/ WFlush3Op(Arg(1), Arg(2)))
  \/ Ev("ImplRespond") /\ ImplRespond(Arg(1), Arg(2))
  \/ Ev("ImplReturn") /\ ImplReturn(Arg(1))
  \/ Ev("ImplAbort") /\ ImplAbort(Arg(1))
  \/ Ev("ImplLate") /\ ImplLate(Arg(1), Arg(2))
  \/ Ev("ImplExtra") /\ ImplExtra(Arg(1))
  \/ Ev("WEnd") /\ WEnd(Arg(1))
  \/ Ev("RUnlink") /\ \E g \in Threads : RUnlink(g, Arg(1))
  \/ Ev("RPost") /\ \E g \in Threads : RPost(g, Arg(1))
  \/ Ev("REnq") /\ \E g \in Threads : REnq(g, Arg(1))
  \/ Ev("RNext") /\ \E g \in Threads : RNext(g, Arg(1))
  \/ Ev("SWrite") /\ (SWrite \/ SWriteClosed)
  \/ Ev("CRecv") /\ CRecv
  \/ Ev("ClientClose") /\ ClientClose
  \/ Ev("CloseEnter") /\ CloseEnter
  \/ Ev("CloseDestroy") /\ CloseDestroy

(* workers whose process() returned on the fixed flushed path leave no schedule point behind:
   WRet is a silent step, taken eagerly before the next logged step *)
Silent == \E r \in ReqIds : WRet(r)

Matched == Step /\ PostMatches /\ l' = l + 1 /\ UNCHANGED <<failed, case, done>>
SilentStep == l <= Len(Trace) /\ ~failed /\ Silent /\ UNCHANGED tvars

ResetStep ==
  /\ l <= Len(Trace) /\ Line.act = "Reset"
  /\ ResetVars /\ l' = l + 1 /\ failed' = FALSE /\ case' = Line.case /\ UNCHANGED done

Reject ==
  /\ l <= Len(Trace) /\ ~failed /\ Line.act # "Reset"
  /\ ~ENABLED Matched /\ ~ENABLED SilentStep
  /\ PrintT(<<"REJECT", case, l, Line.act, Line.args>>)
  /\ PrintT("REJECT-STATE " \o ToString(<<case, l>>) \o ToString([wpc |-> wpc, impl |-> impl, spc |-> spc, scur |-> scur, extra |-> extra,
                                        wire |-> [k \in 1..Len(wire) |-> wire[k].req], parked |-> AlphaParked]))
  /\ failed' = TRUE /\ l' = l + 1 /\ UNCHANGED <<vars, case, done>>

SkipStep ==
  /\ l <= Len(Trace) /\ failed /\ Line.act # "Reset"
  /\ l' = l + 1 /\ UNCHANGED <<vars, failed, case, done>>

Finish == /\ l = Len(Trace) + 1 /\ ~done /\ PrintT(<<"CONSUMED", Len(Trace)>>)
          /\ done' = TRUE /\ UNCHANGED <<vars, l, failed, case>>

TraceNext == Matched \/ SilentStep \/ ResetStep \/ Reject \/ SkipStep \/ Finish
TraceSpec == TraceInit /\ [][TraceNext]_<<vars, tvars>>

=============================================================================
