SPECIFICATION Spec
CONSTANTS
  NReq = 2
  Tags = {1, 2}
  Fids = {1}
  Kinds = {"Attach", "Stat", "Flush"}
  FixFallthrough = FALSE
  FixStale = FALSE
  FixClose = FALSE
  SharedTags = FALSE
  HasFlushOp = FALSE
  Extra = TRUE
  Late = TRUE
  PoolCap = 1
  Maxpend = 0
  InitFids = {}
  CanClose = FALSE
  Held = {}
INVARIANTS TypeOK NoCrash AtMostOneReply ReplyMatches AllAnswered FlushOrder NoCallAfterCancel FlushAnswered CancelLeavesNothing NoStuckThread
CHECK_DEADLOCK FALSE
