------------------------------ MODULE UfsData ------------------------------
(* File data and directory reads through the go9p client and the Unix file server
   (properties C14 and C15).

   PART A (C14).  A file is a length plus contents; contents are written as an *extent list*
   (writer id, offset inside that writer's pattern, length; writer 0 = hole, all zero bytes), so
   that the same operators work for the scaled exhaustive model (where extents are expanded to
   byte cells and compared with plain sequence arithmetic) and for real sizes (msize up to
   64 KiB, files of several iounits; numbers stay far below 2^31).
     * "Req..." operators say what the property demands (ReadExact, ReadBeyondEOFEmpty,
       WriteExact, helper results and offsets).
     * "C..." / "F..." operators are the client code transcribed: Clnt.Read / Clnt.Write clamp to
       fid.Iounit (clnt_read.go, clnt_write.go), File.Read/ReadAt (EOF when 0 bytes), the
       File.Readn and File.Written loops, the File offset rule.  ReadnFix = FALSE is the loop as
       found (returns 0 and the EOF error when it reaches end of file), TRUE the repaired loop.
       The server side (Ufs.Read: InitRread + ReadAt + SetRreadCount; Ufs.Write: WriteAt) is the
       POSIX pread/pwrite semantics = Slice / WriteExt.
     * FileSpec is the scaled state machine (TLC: every write/read helper from every reachable
       file state); Cases(iu) is the concrete case table for a real iounit, exported as ndjson;
       UfsDataTrace evaluates the same operators over seeded random operation sequences.

   PART B (C15).  A directory is a sequence of entry sizes (bytes of each stat record on the
   wire).  DirSpec is the byte-level machine of directory reads under the protocol's offset
   rule.  Allowed(...) is what the property permits for a read (SOME non-empty prefix of the
   remaining whole entries totalling <= count; error iff the next entry does not fit; empty at
   the end), UfsWindow(...) is the window arithmetic of the directory branch of Ufs.Read
   transcribed literally (snapshot at offset 0, sort.SearchInts over direntends), Readdir0(...)
   the loop of File.Readdir(0).  DirImpl = TRUE makes the machine take the transcribed outcome
   (deterministic: this graph gives the transition tour replayed on real directories),
   FALSE any allowed outcome (used to validate traces of the real server). *)
EXTENDS Integers, Sequences, FiniteSets, TLC

CONSTANTS Iounit,       \* A: largest transfer per message in the scaled model
          InitLens,     \* A: initial file lengths of the scaled model
          MaxOff,       \* A: offsets 0..MaxOff
          MaxCnt,       \* A: counts 1..MaxCnt
          NFiles,       \* A: files open at once
          MaxWrites,    \* A: mutating helper calls per behaviour
          ReadnFix,     \* A: File.Readn treats EOF as the end of the loop (proposed fix)
          DSizes,       \* B: entry sizes of the scaled model
          MaxEntries,   \* B: directories of 0..MaxEntries entries
          MaxCount,     \* B: counts 0..MaxCount
          DirImpl,      \* B: outcomes = transcription of Ufs.Read (TRUE) or anything allowed (FALSE)
          DirMutate     \* B: the directory may change between listings

Min(a, b) == IF a < b THEN a ELSE b
Max(a, b) == IF a > b THEN a ELSE b

(***************************************************************************)
(* PART A: extents                                                         *)
(***************************************************************************)
Ext(w, p, n) == [w |-> w, p |-> p, n |-> n]

RECURSIVE FLen(_)
FLen(x) == IF x = <<>> THEN 0 ELSE Head(x).n + FLen(Tail(x))

NewFile(id, L) == IF L = 0 THEN <<>> ELSE <<Ext(id, 0, L)>>

(* the bytes [off, off+n) of x that exist *)
RECURSIVE Slice(_, _, _)
Slice(x, off, n) ==
  IF x = <<>> \/ n <= 0 THEN <<>>
  ELSE LET e == Head(x) IN
       IF off >= e.n THEN Slice(Tail(x), off - e.n, n)
       ELSE LET take == Min(n, e.n - off) IN
            <<Ext(e.w, IF e.w = 0 THEN 0 ELSE e.p + off, take)>> \o Slice(Tail(x), 0, n - take)

(* pwrite of extent e (e.n > 0) at off: holes between the old end and off *)
WriteExt(x, off, e) ==
  LET L == FLen(x) IN
  Slice(x, 0, Min(off, L))
  \o (IF off > L THEN <<Ext(0, 0, off - L)>> ELSE <<>>)
  \o <<e>>
  \o Slice(x, off + e.n, L - (off + e.n))

(* canonical form: no empty extents, neighbours that continue each other merged *)
RECURSIVE Norm(_)
Norm(x) ==
  IF x = <<>> THEN <<>>
  ELSE LET e == Head(x)
           r == Norm(Tail(x))
       IN IF e.n = 0 THEN r
          ELSE IF r # <<>> /\ Head(r).w = e.w /\ (e.w = 0 \/ Head(r).p = e.p + e.n)
               THEN <<Ext(e.w, e.p, e.n + Head(r).n)>> \o Tail(r)
               ELSE <<e>> \o r

(* expansion to byte cells, scaled model only *)
RECURSIVE Bytes(_)
Bytes(x) == IF x = <<>> THEN <<>>
            ELSE LET e == Head(x) IN
                 [i \in 1..e.n |-> IF e.w = 0 THEN <<0, 0>> ELSE <<e.w, e.p + i - 1>>] \o Bytes(Tail(x))

(***************************************************************************)
(* A.1 what the property demands                                           *)
(***************************************************************************)
Avail(x, off) == Max(0, FLen(x) - off)

(* a result record: n bytes transferred, err = "nil" or "EOF" (the error value the transcribed
   code returns), h = File offset afterwards, data = extents read, file = contents afterwards *)
Res(n, err, h, data, file) == [n |-> n, err |-> err, h |-> h, data |-> data, file |-> file]

IsRead(op)  == op \in {"CRead", "Read", "ReadAt", "Readn"}
IsExact(op) == op \in {"CRead", "Readn", "CWrite", "Written"}   \* (CRead/CWrite: exact up to Iounit)
UsesHandle(op) == op \in {"Read", "Write"}

(* bounds on the number of bytes a helper must transfer.  Single-message helpers given more than
   one iounit must move at least one full message (or up to EOF) and may not move more than asked *)
ReqMin(op, x, off, cnt, iu) ==
  IF IsRead(op)
  THEN (IF op = "Readn" THEN Min(cnt, Avail(x, off)) ELSE Min(Min(cnt, iu), Avail(x, off)))
  ELSE (IF op = "Written" THEN cnt ELSE Min(cnt, iu))
ReqMax(op, x, off, cnt, iu) ==
  IF IsRead(op)
  THEN (IF op = "CRead" THEN Min(Min(cnt, iu), Avail(x, off)) ELSE Min(cnt, Avail(x, off)))
  ELSE (IF op = "CWrite" THEN Min(cnt, iu) ELSE cnt)

(* given the number of bytes n a helper reports, everything else is determined *)
ReqData(op, x, off, n) == IF IsRead(op) THEN Slice(x, off, n) ELSE <<>>
ReqFile(op, x, off, n, w) == IF IsRead(op) \/ n = 0 THEN x ELSE WriteExt(x, off, Ext(w, 0, n))
ReqH(op, h, n) == IF UsesHandle(op) THEN h + n ELSE h

(***************************************************************************)
(* A.2 the client code, transcribed                                        *)
(***************************************************************************)
(* Ufs.Read on a regular file: os.File.ReadAt into a buffer of tc.Count bytes *)
SrvRead(x, off, cnt) == Slice(x, off, cnt)
(* Clnt.Read: if count > fid.Iounit { count = fid.Iounit } *)
CRead(x, off, cnt, iu) == SrvRead(x, off, Min(cnt, iu))
(* File.ReadAt: len(b) == 0 => (0, io.EOF) *)
FReadAt(x, off, cnt, iu) ==
  LET b == CRead(x, off, cnt, iu) IN
  IF FLen(b) = 0 THEN [n |-> 0, err |-> "EOF", data |-> <<>>]
  ELSE [n |-> FLen(b), err |-> "nil", data |-> b]
(* File.Readn *)
RECURSIVE ReadnLoop(_, _, _, _, _, _)
ReadnLoop(x, off, rem, iu, ret, acc) ==
  IF rem <= 0 THEN [n |-> ret, err |-> "nil", data |-> acc]
  ELSE LET r == FReadAt(x, off, rem, iu) IN
       IF r.err # "nil"
       THEN (IF ReadnFix /\ r.err = "EOF" THEN [n |-> ret, err |-> "nil", data |-> acc]
             ELSE [n |-> 0, err |-> r.err, data |-> <<>>])
       ELSE IF r.n = 0 THEN [n |-> ret, err |-> "nil", data |-> acc]
       ELSE ReadnLoop(x, off + r.n, rem - r.n, iu, ret + r.n, acc \o r.data)

(* Clnt.Write: data = data[0:fid.Iounit]; Ufs.Write: WriteAt; w = pattern id of the buffer,
   p = position inside the caller's buffer *)
CWrite(x, off, w, p, cnt, iu) ==
  LET n == Min(cnt, iu) IN
  [n |-> n, file |-> IF n = 0 THEN x ELSE WriteExt(x, off, Ext(w, p, n))]
(* File.Written *)
RECURSIVE WrittenLoop(_, _, _, _, _, _, _)
WrittenLoop(x, off, w, p, rem, iu, ret) ==
  IF rem <= 0 THEN [n |-> ret, file |-> x]
  ELSE LET r == CWrite(x, off, w, p, rem, iu) IN
       IF r.n = 0 THEN [n |-> ret, file |-> x]
       ELSE WrittenLoop(r.file, off + r.n, w, p + r.n, rem - r.n, iu, ret + r.n)

(* one helper call: op on contents x, File offset h, explicit offset off (ignored by Read and
   Write, which use h), cnt bytes, buffer pattern w *)
Apply(op, x, h, off, cnt, w, iu) ==
  LET o == IF UsesHandle(op) THEN h ELSE off IN
  CASE op = "CRead"  -> LET b == CRead(x, o, cnt, iu) IN Res(FLen(b), "nil", h, b, x)
    [] op = "ReadAt" -> LET r == FReadAt(x, o, cnt, iu) IN Res(r.n, r.err, h, r.data, x)
    [] op = "Read"   -> LET r == FReadAt(x, o, cnt, iu) IN
                        Res(r.n, r.err, IF r.err = "nil" THEN h + r.n ELSE h, r.data, x)
    [] op = "Readn"  -> LET r == ReadnLoop(x, o, cnt, iu, 0, <<>>) IN
                        Res(r.n, r.err, h, r.data, x)
    [] op = "CWrite" -> LET r == CWrite(x, o, w, 0, cnt, iu) IN Res(r.n, "nil", h, <<>>, r.file)
    [] op = "WriteAt" -> LET r == CWrite(x, o, w, 0, cnt, iu) IN Res(r.n, "nil", h, <<>>, r.file)
    [] op = "Write"  -> LET r == CWrite(x, o, w, 0, cnt, iu) IN Res(r.n, "nil", h + r.n, <<>>, r.file)
    [] op = "Written" -> LET r == WrittenLoop(x, o, w, 0, cnt, iu, 0) IN Res(r.n, "nil", h, <<>>, r.file)

(* the transcribed helper meets the demand (bytes compared after expansion) *)
Meets(op, x, h, off, cnt, w, iu, r) ==
  LET o == IF UsesHandle(op) THEN h ELSE off IN
  /\ r.n >= ReqMin(op, x, o, cnt, iu) /\ r.n <= ReqMax(op, x, o, cnt, iu)
  /\ Bytes(r.data) = Bytes(ReqData(op, x, o, r.n))
  /\ Bytes(r.file) = Bytes(ReqFile(op, x, o, r.n, w))
  /\ r.h = ReqH(op, h, r.n)

(* the extent algebra agrees with plain sequences *)
PlainRead(b, off, cnt) == SubSeq(b, off + 1, Min(Len(b), off + cnt))
PlainWrite(b, off, w, n) ==
  [i \in 1..Max(Len(b), off + n) |->
     IF i > off /\ i <= off + n THEN <<w, i - off - 1>>
     ELSE IF i <= Len(b) THEN b[i] ELSE <<0, 0>>]

Ops == {"CRead", "Read", "ReadAt", "Readn", "CWrite", "Write", "WriteAt", "Written"}
ReadOps  == {"CRead", "ReadAt", "Readn"}           \* no state change at all
WriteOps == {"CWrite", "Write", "WriteAt", "Written"}

(***************************************************************************)
(* A.3 the scaled state machine                                            *)
(***************************************************************************)
VARIABLES files,   \* [1..NFiles -> extent list]
          hoff,    \* [1..NFiles -> File offset]
          nw,      \* mutating calls so far
          last     \* the last mutating call and its result (ghost, for the invariants)
(***************************************************************************)
(* PART B variables                                                        *)
(***************************************************************************)
VARIABLES dirv,    \* the directory now: sequence of entry sizes
          snap,    \* snapshot served to the fid (taken by the read at offset 0)
          doff,    \* offset the protocol rule allows next (besides 0)
          dstate,  \* "new" (nothing read yet) | "open" | "stale" (directory changed: only offset 0)
          dlast    \* last reply (ghost)

fvars == <<files, hoff, nw, last>>
dvars == <<dirv, snap, doff, dstate, dlast>>
vars == <<fvars, dvars>>

FIds == 1..NFiles
NoLast == [op |-> "none"]
WId(k) == 100 + k     \* pattern id of the k-th written buffer

FileInit ==
  /\ files \in [FIds -> {NewFile(1, L) : L \in InitLens}]
  /\ hoff = [f \in FIds |-> 0]
  /\ nw = 0
  /\ last = NoLast

DirIdle == dirv = <<>> /\ snap = <<>> /\ doff = 0 /\ dstate = "idle" /\ dlast = [kind |-> "none"]

DoOp(op, f, off, cnt) ==
  LET r == Apply(op, files[f], hoff[f], off, cnt, WId(nw + 1), Iounit) IN
  /\ files' = [files EXCEPT ![f] = r.file]
  /\ hoff' = [hoff EXCEPT ![f] = r.h]
  /\ last' = [op |-> op, f |-> f, off |-> off, cnt |-> cnt, pre |-> files[f], hpre |-> hoff[f],
              w |-> WId(nw + 1), res |-> r, others |-> [g \in FIds \ {f} |-> files[g]]]

FWrite(op, f, off, cnt) == op \in WriteOps /\ nw < MaxWrites /\ nw' = nw + 1 /\ DoOp(op, f, off, cnt)

(* read helpers do not change the contents; File.Read only moves the File offset.  They are
   checked as state invariants over every (File offset, offset, count), so they need no action *)
FileNext ==
  /\ \E op \in WriteOps, f \in FIds, off \in 0..MaxOff, cnt \in 1..MaxCnt :
        /\ (op = "Write" => off = 0)
        /\ FWrite(op, f, off, cnt)
  /\ UNCHANGED dvars

FileSpec == FileInit /\ DirIdle /\ [][FileNext]_vars

(* invariants of FileSpec *)
LastMeets ==
  last.op # "none" =>
    /\ Meets(last.op, last.pre, last.hpre, last.off, last.cnt, last.w, Iounit, last.res)
    /\ \A g \in FIds \ {last.f} : files[g] = last.others[g]

(* every read helper, from every reachable file state, at every File offset / offset / count:
   the bytes are those of the underlying file (plain sequence arithmetic on the expanded
   contents), the count is within the demanded bounds, contents and File offset as demanded *)
ReadsMeet ==
  \A f \in FIds :
    LET x == files[f]
        B == Bytes(x)
    IN \A op \in {"CRead", "Read", "ReadAt", "Readn"}, off \in 0..MaxOff, cnt \in 1..MaxCnt :
         LET h == IF op = "Read" THEN off ELSE hoff[f]
             r == Apply(op, x, h, off, cnt, 0, Iounit)
         IN /\ r.n >= ReqMin(op, x, off, cnt, Iounit) /\ r.n <= ReqMax(op, x, off, cnt, Iounit)
            /\ Bytes(r.data) = PlainRead(B, off, r.n)
            /\ r.file = x
            /\ r.h = ReqH(op, h, r.n)
            /\ (op = "Readn" => r.n = Min(cnt, Max(0, Len(B) - off)))               \* all of it, up to EOF
            /\ (op = "CRead" /\ cnt <= Iounit => r.n = Min(cnt, Max(0, Len(B) - off)))  \* ReadExact
            /\ (off >= Len(B) => r.n = 0 /\ r.data = <<>>)                          \* ReadBeyondEOFEmpty
WriteExact ==
  (last.op \in WriteOps) =>
    LET o == IF last.op = "Write" THEN last.hpre ELSE last.off IN
    /\ Bytes(files[last.f]) = PlainWrite(Bytes(last.pre), o, last.w, last.res.n)
    /\ (last.op = "Written" => last.res.n = last.cnt)
    /\ (last.op # "Written" => last.res.n = Min(last.cnt, Iounit))
OffsetAdvance ==
  last.op # "none" =>
    hoff[last.f] = (IF UsesHandle(last.op) THEN last.hpre + last.res.n ELSE last.hpre)
NormSame == \A f \in FIds : Bytes(Norm(files[f])) = Bytes(files[f])
FileTypeOK == \A f \in FIds : hoff[f] >= 0 /\ FLen(files[f]) >= 0

(***************************************************************************)
(* A.4 concrete case tables for a real iounit (= msize - 24)               *)
(***************************************************************************)
H0 == 5     \* File offset given to handles of calls that must not move it
CaseLens(iu) == {0, 1, iu - 1, iu, iu + 1, 2 * iu - 1, 2 * iu, 2 * iu + 1, 3 * iu + 1}
CaseOffs(iu, L) == {o \in {0, 1, iu - 1, iu, iu + 1, 2 * iu - 1, 2 * iu + 1,
                           L - 1, L, L + 1, L + iu, L + iu + 1} : o >= 0}
CaseCnts(iu) == {1, iu - 1, iu, iu + 1, 2 * iu - 1, 2 * iu + 1, 3 * iu + 1}

CaseRec(iu, op, L, off, cnt) ==
  LET x == NewFile(1, L)
      h == IF UsesHandle(op) THEN off ELSE H0
      r == Apply(op, x, h, off, cnt, 2, iu)
  IN [iu |-> iu, op |-> op, len |-> L, off |-> off, cnt |-> cnt, h0 |-> h,
      n |-> r.n, err |-> r.err, h |-> r.h,
      \* an end-of-file indication is legitimate iff fewer bytes than asked were moved because the file ended
      ateof |-> (IsRead(op) /\ r.n < cnt /\ off + r.n >= L),
      nmin |-> ReqMin(op, x, off, cnt, iu), nmax |-> ReqMax(op, x, off, cnt, iu),
      data |-> Norm(r.data), file |-> Norm(r.file), flen |-> FLen(r.file),
      \* the demand for the predicted n, computed independently of the loops
      rdata |-> Norm(ReqData(op, x, off, r.n)), rfile |-> Norm(ReqFile(op, x, off, r.n, 2)),
      rh |-> ReqH(op, h, r.n)]

Cases(iu) ==
  UNION { UNION { UNION { { CaseRec(iu, op, L, off, cnt) : cnt \in CaseCnts(iu) }
                          : off \in CaseOffs(iu, L) } : L \in CaseLens(iu) } : op \in Ops }

(***************************************************************************)
(* PART B: directory reads                                                 *)
(***************************************************************************)
RECURSIVE Sum(_)
Sum(s) == IF s = <<>> THEN 0 ELSE Head(s) + Sum(Tail(s))
(* direntends: end offset of each record *)
RECURSIVE EndsFrom(_, _, _)
EndsFrom(s, i, acc) == IF i > Len(s) THEN <<>> ELSE <<acc + s[i]>> \o EndsFrom(s, i + 1, acc + s[i])
Ends(s) == EndsFrom(s, 1, 0)
Bounds(s) == {0} \cup {Ends(s)[i] : i \in 1..Len(s)}
MaxSize(s) == IF s = <<>> THEN 0 ELSE CHOOSE m \in {s[i] : i \in 1..Len(s)} : \A j \in 1..Len(s) : s[j] <= m

(* index (1-based) of the entry starting at boundary off, Len+1 at the end *)
EntryAt(s, off) == Cardinality({i \in 1..Len(s) : Ends(s)[i] <= off}) + 1

Err == -1   \* an Rerror reply (TLC cannot compare strings with numbers)
(* what the property permits as the reply to a read of `count` at boundary `off`:
   Err, or a number of bytes *)
Allowed(s, off, count) ==
  LET k0 == EntryAt(s, off) IN
  IF k0 > Len(s) THEN {0}
  ELSE IF s[k0] > count THEN {Err}
  ELSE {Ends(s)[k] - off : k \in {k \in k0..Len(s) : Ends(s)[k] - off <= count}}

(* the same as `r \in Allowed(s, off, count)` for the boundary off at which entry number k0
   starts, in time linear in the number of entries delivered (used on traces of directories
   with thousands of entries; FastAgrees checks the equivalence on the scaled model) *)
RECURSIVE WalkTo(_, _, _)
WalkTo(s, i, rem) == IF rem = 0 THEN i
                     ELSE IF i > Len(s) \/ s[i] > rem THEN 0
                     ELSE WalkTo(s, i + 1, rem - s[i])
AllowedFast(s, k0, count, r) ==
  IF k0 > Len(s) THEN r = 0
  ELSE IF s[k0] > count THEN r = Err
  ELSE r > 0 /\ r <= count /\ WalkTo(s, k0, r) > 0

(* sort.SearchInts(a, x): smallest 0-based index i with a[i] >= x, or len(a) *)
SearchInts(a, x) == Cardinality({i \in 1..Len(a) : a[i] < x})

(* directory branch of Ufs.Read after the snapshot: the switch, the SearchInts cut, the
   'too small read size' test, transcribed with 0-based nextend *)
UfsWindow(s, off, count) ==
  LET ends == Ends(s)
      total == Sum(s)
      c0 == IF off > total THEN 0 ELSE IF total - off > count THEN count ELSE total - off
      ne == SearchInts(ends, off + c0)
      c1 == IF ne < Len(ends) /\ ends[ne + 1] > off + c0
            THEN (IF ne > 0 /\ ends[ne] > off THEN ends[ne] - off ELSE 0)
            ELSE c0
  IN IF c1 = 0 /\ off < total /\ total > 0 THEN Err ELSE c1

Outcomes(s, off, count) == IF DirImpl THEN {UfsWindow(s, off, count)} ELSE Allowed(s, off, count)

(* File.Readdir(0) on a freshly opened File: Read(buf[msize-24]) (clamped to Iounit = msize-24)
   from the File offset until 0 bytes; an error reply fails the call; returns the number of
   entries unpacked, or Err *)
RECURSIVE ReaddirLoop(_, _, _, _)
ReaddirLoop(s, off, iu, fuel) ==
  LET r == UfsWindow(s, off, iu) IN
  IF r = Err THEN Err
  ELSE IF r = 0 \/ fuel = 0 THEN EntryAt(s, off) - 1
  ELSE ReaddirLoop(s, off + r, iu, fuel - 1)
Readdir0(s, iu) == ReaddirLoop(s, 0, iu, Len(s) + 1)

RECURSIVE SeqsUpTo(_)
SeqsUpTo(n) == IF n = 0 THEN {<<>>}
               ELSE LET S == SeqsUpTo(n - 1) IN
                    S \cup {Append(q, z) : q \in {q \in S : Len(q) = n - 1}, z \in DSizes}
AllDirs == SeqsUpTo(MaxEntries)

FileIdle == files = [f \in FIds |-> <<>>] /\ hoff = [f \in FIds |-> 0] /\ nw = 0 /\ last = NoLast
DirInit == dirv = <<>> /\ snap = <<>> /\ doff = 0 /\ dstate = "setup" /\ dlast = [kind |-> "none"]

(* choose the directory (an action, so that it is an edge label of the dumped graph) *)
Mk(d) == /\ dstate = "setup" /\ d \in AllDirs
         /\ dirv' = d /\ dstate' = "new" /\ UNCHANGED <<snap, doff, dlast, fvars>>

Reply(s, off, count, r) ==
  /\ dlast' = [kind |-> IF r = Err THEN "err" ELSE IF r = 0 THEN "empty" ELSE "data",
               off |-> off, count |-> count, n |-> IF r = Err THEN 0 ELSE r, snap |-> s]
  /\ doff' = IF r = Err THEN off ELSE off + r

(* Tread at offset 0: re-snapshot and restart *)
DRead0(count) ==
  /\ dstate \in {"new", "open", "stale"}
  /\ \E r \in Outcomes(dirv, 0, count) : Reply(dirv, 0, count, r)
  /\ snap' = dirv /\ dstate' = "open" /\ UNCHANGED <<dirv, fvars>>
(* Tread at the previous offset plus the bytes returned *)
DReadNext(count) ==
  /\ dstate = "open" /\ doff > 0
  /\ \E r \in Outcomes(snap, doff, count) : Reply(snap, doff, count, r)
  /\ UNCHANGED <<dirv, snap, dstate, fvars>>
(* the directory changes: the listing in progress is abandoned (the property says nothing about
   it); the next read is at offset 0 *)
DMutate(d) ==
  /\ DirMutate /\ dstate \in {"new", "open"} /\ d \in AllDirs /\ d # dirv
  /\ \/ \E z \in DSizes : d = Append(dirv, z) \/ d = <<z>> \o dirv
     \/ (dirv # <<>> /\ (d = Tail(dirv) \/ d = SubSeq(dirv, 1, Len(dirv) - 1)))
  /\ dirv' = d /\ dstate' = "stale" /\ UNCHANGED <<snap, doff, dlast, fvars>>
(* Readdir(0) through a client whose iounit is `count`, on a fresh fid: no change of this
   fid's state; the result is checked by Readdir0Complete *)
DReaddir0(count) ==
  /\ dstate \in {"new", "open"} /\ UNCHANGED <<dvars, fvars>>

DirNext ==
  \/ \E d \in AllDirs : Mk(d)
  \/ \E c \in 0..MaxCount : DRead0(c)
  \/ \E c \in 0..MaxCount : DReadNext(c)
  \/ \E d \in AllDirs : DMutate(d)
DirTourNext ==
  \/ \E d \in AllDirs : Mk(d)
  \/ \E c \in 0..MaxCount : DRead0(c)
  \/ \E c \in 0..MaxCount : DReadNext(c)
  \/ \E c \in 0..MaxCount : DReaddir0(c)

(* A Tread at an offset the protocol rule does not allow (not 0, not the previous offset plus the
   bytes returned): anywhere from 1 to past the end of the listing, inside a record or on a
   boundary.  The property on directory listings (C15) says nothing about the reply; C06 demands
   that the server survives it.  Ufs.Read serves it from the snapshot of the last read at offset 0
   (empty if there was none) and does not change the fid's state. *)
OffSnap == IF dstate = "new" THEN <<>> ELSE snap
DReadAt(off, count) ==
  /\ dstate \in {"new", "open"}
  /\ off \in 1..(Sum(OffSnap) + 2) /\ (dstate = "open" => off # doff)
  /\ dlast' = [kind |-> "offrule", off |-> off, count |-> count, n |-> UfsWindow(OffSnap, off, count), snap |-> OffSnap]
  /\ UNCHANGED <<dirv, snap, doff, dstate, fvars>>
MaxTotal == MaxEntries * (CHOOSE m \in DSizes : \A z \in DSizes : z <= m)
DirAnyTourNext ==
  \/ \E d \in AllDirs : Mk(d)
  \/ \E c \in {0, MaxCount} : DRead0(c)
  \/ \E c \in {MaxCount} : DReadNext(c)
  \/ \E off \in 1..(MaxTotal + 2), c \in 0..MaxCount : DReadAt(off, c)
DirAnyTourSpec == FileIdle /\ DirInit /\ [][DirAnyTourNext]_vars

DirSpec == FileIdle /\ DirInit /\ [][DirNext]_vars
DView == <<dirv, snap, doff, dstate>>     \* the tour graph ignores the ghost variable dlast
DirTourSpec == FileIdle /\ DirInit /\ [][DirTourNext]_vars

(* invariants of DirSpec *)
WholeEntries ==
  dlast.kind = "data" =>
    /\ dlast.off \in Bounds(dlast.snap) /\ (dlast.off + dlast.n) \in Bounds(dlast.snap)
    /\ dlast.n > 0 /\ dlast.n <= dlast.count
(* the replies from 0 are contiguous by the offset rule, so their concatenation is the snapshot,
   each entry once, iff they stop exactly at its end *)
EachExactlyOnce ==
  /\ (dlast.kind = "empty" => dlast.off = Sum(dlast.snap))
  /\ (dstate = "open" => doff \in Bounds(snap) /\ doff <= Sum(snap))
TooSmallIsError ==
  /\ (dlast.kind = "err" =>
        LET k == EntryAt(dlast.snap, dlast.off) IN k <= Len(dlast.snap) /\ dlast.snap[k] > dlast.count)
  /\ (dlast.kind \in {"data", "empty"} =>
        LET k == EntryAt(dlast.snap, dlast.off) IN k > Len(dlast.snap) \/ dlast.snap[k] <= dlast.count)
RereadFromZero ==
  (dlast.kind # "none" /\ dlast.off = 0) => dlast.snap = dirv \/ dstate = "stale"
(* the transcribed window is always among the permitted replies, for every legal read *)
WindowRefines ==
  dstate \in {"new", "open", "stale"} =>
    \A c \in 0..MaxCount :
      /\ UfsWindow(dirv, 0, c) \in Allowed(dirv, 0, c)
      /\ (dstate = "open" /\ doff > 0 => UfsWindow(snap, doff, c) \in Allowed(snap, doff, c))
(* the slice expressions of the directory branch (fid.dirents[off:off+n] copied into a buffer of
   `count` bytes) are in bounds for EVERY offset and count, not only those the rule allows *)
WindowSafe ==
  dstate \in {"new", "open", "stale"} =>
    \A off \in 0..(Sum(dirv) + 2), c \in 0..MaxCount :
      LET r == UfsWindow(dirv, off, c) IN
        r = Err \/ (r >= 0 /\ r <= c /\ (off > Sum(dirv) \/ off + r <= Sum(dirv)))
FastAgrees ==
  dstate = "open" =>
    \A c \in 0..MaxCount, r \in (-1)..MaxCount :
      (r \in Allowed(snap, doff, c)) <=> AllowedFast(snap, EntryAt(snap, doff), c, r)
Readdir0Complete ==
  dstate \in {"new", "open", "stale"} =>
    \A c \in 1..MaxCount :
      IF MaxSize(dirv) <= c THEN Readdir0(dirv, c) = Len(dirv) ELSE Readdir0(dirv, c) = Err

(* a specification with a single state, used to evaluate constant-level exports *)
NullSpec == FileIdle /\ DirIdle /\ [][FALSE]_vars
=============================================================================
