---------------------------- MODULE UfsDataTrace ----------------------------
(* Binding of UfsData to executions of the real client and Ufs.

   ExpectSpec (C14): IN_FILE holds seeded random operation sequences over several files open at
   once, chosen by the check before anything is executed:
       {"act":"Reset","case":c,"iu":iounit,"lens":[l1,..]}   files 1..k with these lengths, File offsets 0
       {"act":"Op","op":"Readn","f":i,"off":o,"cnt":n,"w":patternid}
   The machine applies UfsData!Apply (the transcribed helpers) and the Req... operators (the
   demand) to each line and writes one expectation record per operation to OUT_FILE; the Go
   engine then executes the same sequence on the real code and compares every step with these
   records and with the os package.  A sequence is cut (PrintT "MODEL") if the transcription and
   the demand ever disagree, which FileSpec excludes for the scaled constants.

   DirTraceSpec (C15): IN_FILE holds what the real server answered:
       {"act":"Dir","case":c,"sizes":[s1,..]}     a fresh fid on a directory whose entries have
                                                  these wire sizes, in the order served
       {"act":"Mutate","sizes":[..]}              the directory changed
       {"act":"Read0","count":n,"r":bytes|-1}     Tread at offset 0
       {"act":"ReadNext","off":o,"count":n,"r":bytes|-1}
       {"act":"Readdir0","iu":n,"k":entries|-1}   File.Readdir(0) through a client with that iounit
   A line is accepted iff it is a step of UfsData!DirSpec with DirImpl = FALSE (any allowed
   outcome); otherwise REJECT is printed and the rest of the case is skipped. *)
EXTENDS UfsData, Json, IOUtils, SequencesExt

InFile  == IF "IN_FILE" \in DOMAIN IOEnv THEN IOEnv.IN_FILE ELSE "in.ndjson"
OutFile == IF "OUT_FILE" \in DOMAIN IOEnv THEN IOEnv.OUT_FILE ELSE "out.ndjson"
Trace == ndJsonDeserialize(InFile)

VARIABLES l,       \* next line
          case, iu, failed, done,
          out,     \* expectation records of the current chunk
          dl, sl,  \* line numbers of the Dir/Mutate line describing the directory / the snapshot
          dpos     \* entry number at which doff starts
tvars == <<l, case, iu, failed, done, out, dl, sl, dpos>>

Line == Trace[l]
Chunk == 2000   \* expectation records per output file

TInit ==
  /\ files = <<>> /\ hoff = <<>> /\ nw = 0 /\ last = NoLast
  /\ dirv = <<>> /\ snap = <<>> /\ doff = 0 /\ dstate = "idle" /\ dlast = [kind |-> "none"]
  /\ l = 1 /\ case = 0 /\ iu = 0 /\ failed = FALSE /\ done = FALSE /\ out = <<>>
  /\ dl = 0 /\ sl = 0 /\ dpos = 1

(***************************************************************************)
(* C14: expectations                                                       *)
(***************************************************************************)
Flush(n) == ndJsonSerialize(OutFile \o "." \o ToString(n), out)

EReset ==
  /\ l <= Len(Trace) /\ Line.act = "Reset"
  /\ files' = [i \in 1..Len(Line.lens) |-> NewFile(i, Line.lens[i])]
  /\ hoff' = [i \in 1..Len(Line.lens) |-> 0]
  /\ case' = Line.case /\ iu' = Line.iu /\ failed' = FALSE
  /\ l' = l + 1 /\ UNCHANGED <<nw, last, dvars, done, out, dl, sl, dpos>>

EOp ==
  /\ l <= Len(Trace) /\ Line.act = "Op" /\ ~failed
  /\ LET op == Line.op
         f == Line.f
         x == files[f]
         h == hoff[f]
         o == IF UsesHandle(op) THEN h ELSE Line.off
         r == Apply(op, x, h, Line.off, Line.cnt, Line.w, iu)
         lo == ReqMin(op, x, o, Line.cnt, iu)
         hi == ReqMax(op, x, o, Line.cnt, iu)
         rfile == ReqFile(op, x, o, r.n, Line.w)
         ok == /\ r.n >= lo /\ r.n <= hi /\ r.h = ReqH(op, h, r.n)
               /\ Norm(r.data) = Norm(ReqData(op, x, o, r.n)) /\ Norm(r.file) = Norm(rfile)
         rec == [case |-> case, line |-> l, op |-> op, f |-> f, off |-> o, cnt |-> Line.cnt, w |-> Line.w,
                 h0 |-> h, n |-> r.n, err |-> r.err, h |-> r.h, nmin |-> lo, nmax |-> hi,
                 ateof |-> (IsRead(op) /\ r.n < Line.cnt /\ o + r.n >= FLen(x)),
                 data |-> Norm(r.data), flen |-> FLen(rfile),
                 file |-> IF IsRead(op) THEN <<>> ELSE Norm(rfile)]
     IN IF ok
        THEN /\ files' = [files EXCEPT ![f] = Norm(rfile)]
             /\ hoff' = [hoff EXCEPT ![f] = r.h]
             /\ out' = Append(out, rec) /\ failed' = FALSE
        ELSE /\ PrintT(<<"MODEL", case, l, op>>)
             /\ failed' = TRUE /\ UNCHANGED <<files, hoff, out>>
  /\ l' = l + 1 /\ UNCHANGED <<nw, last, dvars, case, iu, done, dl, sl, dpos>>

ESkip ==
  /\ l <= Len(Trace) /\ Line.act = "Op" /\ failed
  /\ l' = l + 1 /\ UNCHANGED <<fvars, dvars, case, iu, failed, done, out, dl, sl, dpos>>

(* write a chunk of expectations whenever enough have accumulated, and at the end *)
EFlush ==
  /\ ~done /\ (Len(out) >= Chunk \/ (l = Len(Trace) + 1 /\ out # <<>>))
  /\ Flush(l)
  /\ out' = <<>> /\ UNCHANGED <<fvars, dvars, l, case, iu, failed, done, dl, sl, dpos>>

EFinish ==
  /\ l = Len(Trace) + 1 /\ ~done /\ out = <<>>
  /\ PrintT(<<"CONSUMED", Len(Trace)>>)
  /\ done' = TRUE /\ UNCHANGED <<fvars, dvars, l, case, iu, failed, out, dl, sl, dpos>>

ENext == IF ENABLED EFlush THEN EFlush ELSE (EReset \/ EOp \/ ESkip \/ EFinish)
ExpectSpec == TInit /\ [][ENext]_<<vars, tvars>>

(***************************************************************************)
(* C14: concrete case tables (UfsData!Cases) for the real msizes, one file per msize,        *)
(* written when TABLE_OUT is set (run with SPECIFICATION TableSpec)                          *)
(***************************************************************************)
Msizes == {128, 256, 4096, 8216, 65536}
IOHDRSZ == 24
ASSUME ("TABLE_OUT" \in DOMAIN IOEnv) =>
         \A m \in Msizes : ndJsonSerialize(IOEnv.TABLE_OUT \o "." \o ToString(m), SetToSeq(Cases(m - IOHDRSZ)))
TableSpec == TInit /\ [][FALSE]_<<vars, tvars>>

(***************************************************************************)
(* C15: trace validation                                                   *)
(***************************************************************************)
DSz(n) == Trace[n].sizes

DDir ==
  /\ l <= Len(Trace) /\ Line.act = "Dir"
  /\ case' = Line.case /\ failed' = FALSE /\ dl' = l /\ sl' = 0 /\ dpos' = 1
  /\ dstate' = "new" /\ doff' = 0
  /\ l' = l + 1 /\ UNCHANGED <<fvars, dirv, snap, dlast, iu, done, out>>

DMut ==
  /\ l <= Len(Trace) /\ Line.act = "Mutate" /\ ~failed /\ dstate \in {"new", "open", "stale"}
  /\ dl' = l /\ dstate' = "stale"
  /\ l' = l + 1 /\ UNCHANGED <<fvars, dirv, snap, doff, dlast, case, iu, failed, done, out, sl, dpos>>

Advance(s, k0, r) == IF r > 0 THEN WalkTo(s, k0, r) ELSE k0

DR0 ==
  /\ l <= Len(Trace) /\ Line.act = "Read0" /\ ~failed /\ dstate \in {"new", "open", "stale"}
  /\ AllowedFast(DSz(dl), 1, Line.count, Line.r)
  /\ sl' = dl /\ dstate' = "open"
  /\ doff' = IF Line.r > 0 THEN Line.r ELSE 0
  /\ dpos' = Advance(DSz(dl), 1, Line.r)
  /\ l' = l + 1 /\ UNCHANGED <<fvars, dirv, snap, dlast, case, iu, failed, done, out, dl>>

DRN ==
  /\ l <= Len(Trace) /\ Line.act = "ReadNext" /\ ~failed /\ dstate = "open" /\ doff > 0
  /\ Line.off = doff
  /\ AllowedFast(DSz(sl), dpos, Line.count, Line.r)
  /\ doff' = IF Line.r > 0 THEN doff + Line.r ELSE doff
  /\ dpos' = Advance(DSz(sl), dpos, Line.r)
  /\ l' = l + 1 /\ UNCHANGED <<fvars, dirv, snap, dstate, dlast, case, iu, failed, done, out, dl, sl>>

(* Readdir(0) on a fresh fid through a client whose iounit is Line.iu: complete iff every entry
   fits; never a partial set without an error *)
RECURSIVE MaxOf(_, _, _)
MaxOf(s, i, m) == IF i > Len(s) THEN m ELSE MaxOf(s, i + 1, IF s[i] > m THEN s[i] ELSE m)
DRd0 ==
  /\ l <= Len(Trace) /\ Line.act = "Readdir0" /\ ~failed /\ dstate \in {"new", "open", "stale"}
  /\ IF MaxOf(DSz(dl), 1, 0) <= Line.iu THEN Line.k = Len(DSz(dl)) ELSE Line.k = Err
  /\ l' = l + 1 /\ UNCHANGED <<fvars, dvars, case, iu, failed, done, out, dl, sl, dpos>>

(* a Tread off the protocol's offset rule (C06): the reply is what the transcribed window of Ufs.Read
   gives on the snapshot of the last read at offset 0 (none: empty); the listing state is untouched *)
DRAt ==
  /\ l <= Len(Trace) /\ Line.act = "ReadAt" /\ ~failed /\ dstate \in {"new", "open"}
  /\ Line.r = UfsWindow(IF dstate = "new" THEN <<>> ELSE DSz(sl), Line.off, Line.count)
  /\ l' = l + 1 /\ UNCHANGED <<fvars, dvars, case, iu, failed, done, out, dl, sl, dpos>>

DMatched == DDir \/ DMut \/ DR0 \/ DRN \/ DRd0 \/ DRAt

DReject ==
  /\ l <= Len(Trace) /\ ~failed /\ Line.act # "Dir" /\ ~ENABLED DMatched
  /\ PrintT(<<"REJECT", case, l, Line.act>>)
  /\ failed' = TRUE /\ l' = l + 1
  /\ UNCHANGED <<fvars, dvars, case, iu, done, out, dl, sl, dpos>>

DSkip ==
  /\ l <= Len(Trace) /\ failed /\ Line.act # "Dir"
  /\ l' = l + 1 /\ UNCHANGED <<fvars, dvars, case, iu, failed, done, out, dl, sl, dpos>>

DFinish ==
  /\ l = Len(Trace) + 1 /\ ~done /\ PrintT(<<"CONSUMED", Len(Trace)>>)
  /\ done' = TRUE /\ UNCHANGED <<fvars, dvars, l, case, iu, failed, out, dl, sl, dpos>>

DTNext == DMatched \/ DReject \/ DSkip \/ DFinish
DirTraceSpec == TInit /\ [][DTNext]_<<vars, tvars>>
=============================================================================
