------------------------------ MODULE UfsTree ------------------------------
(* Names, metadata, mutations and confinement of the Unix file server (ufs.go) -- C16, C17, C18.

   Two layers.
   * POSIX layer: a host tree (inodes `node`, directory tables `ents`, hard links = two entries with
     one id, symlinks) and the effect and errno of mkdir/symlink/link/open/unlink+rmdir/rename/
     truncate/chmod/utimes/pwrite on it (the P_xxx operators), with Linux path resolution (Res).
     The host tree contains the exported root AND what lies next to and above it:
        Top(1) { ca: canary file(2), mid(3) { cs: canary file(4), cd: canary dir(5) { cf(7) }, root(6) {...} } }
   * Ufs layer: fids (host path, recorded qid type, open mode) and one action per 9P request as
     ufs.go + srv_fcall.go serve it.  Four toggles name the defects of the unrepaired code; TRUE is
     the repaired code and the behaviour the properties demand:
        FixWalk     FALSE: Walk commits the path of a partial walk (in place: the fid moves)   (C16)
        FixConfine  FALSE: "..", names containing "/", "../x" attach/create/rename names are joined
                           onto host paths uncontrolled                                         (C18)
        FixErrno    FALSE: toError does not unwrap *PathError/*LinkError: ecode is always EIO   (C17)
        FixDangling FALSE: create of a symlink whose target cannot be opened answers Rerror but
                           leaves the link                                                      (C17)
   The properties are action properties over (state, step observation `obs`), so TLC checks them on
   every transition, and `obs` is kept out of the VIEW.

   Fid paths are absolute from Top, e.g. <<"mid","root","a">>; RootPath = <<"mid","root">>. *)
EXTENDS Integers, Sequences, FiniteSets, TLC

CONSTANTS
  Names,        \* plain names used in walks, creates, renames (some exist, some do not)
  Specials,     \* raw names of the C18 grammar enabled in walks/creates/renames (subset of DOMAIN SpecialComps)
  AttachNames,  \* attach names ("" = the root)
  RenameNames,  \* rename targets
  Fids, MaxWalk, InitTree, Ops, Perms, Modes, Lens, Mtimes, LinkTargets, CreateKinds,
  MaxIds, MaxLen, Dotu,
  FixWalk, FixConfine, FixErrno, FixDangling

Ids == 1..MaxIds
TopId == 1
MidId == 3
RootId == 6
RootPath == <<"mid", "root">>
MaxPath == 6
OutsideIds == {1, 2, 3, 4, 5, 7}

EPERM == 1  ENOENT == 2  EIO == 5  EEXIST == 17  ENOTDIR == 20  EISDIR == 21  EINVAL == 22
ENOTEMPTY == 39  ELOOP == 40  EBUSY == 16

(* '/'-split components of the raw names that are not plain. *)
SpecialComps ==
  ".." :> <<"..">> @@ "." :> <<".">> @@ "" :> <<"">> @@ "/" :> <<"", "">> @@
  "a/b" :> <<"a", "b">> @@ "a/a" :> <<"a", "a">> @@ "a/c" :> <<"a", "c">> @@ "/a" :> <<"", "a">> @@ "/b" :> <<"", "b">> @@ "/c" :> <<"", "c">> @@ "/a/c" :> <<"", "a", "c">> @@ "/a/b" :> <<"", "a", "b">> @@
  "a/.." :> <<"a", "..">> @@ "a/../b" :> <<"a", "..", "b">> @@
  "../cs" :> <<"..", "cs">> @@ "../cd" :> <<"..", "cd">> @@ "../x" :> <<"..", "x">> @@ "../root" :> <<"..", "root">> @@
  "../../ca" :> <<"..", "..", "ca">> @@ "../../x" :> <<"..", "..", "x">> @@ "../.." :> <<"..", "..">> @@
  "a/../../cs" :> <<"a", "..", "..", "cs">> @@ "a/../../x" :> <<"a", "..", "..", "x">> @@
  "/../cs" :> <<"", "..", "cs">> @@ "/../x" :> <<"", "..", "x">> @@ "/../../ca" :> <<"", "..", "..", "ca">> @@
  "../cd/cf" :> <<"..", "cd", "cf">> @@ "./a" :> <<".", "a">> @@ "a/" :> <<"a", "">> @@ "/x" :> <<"", "x">> @@
  "../../../ca" :> <<"..", "..", "..", "ca">> @@ "a/../../../ca" :> <<"a", "..", "..", "..", "ca">>

Comps(n) == IF n \in DOMAIN SpecialComps THEN SpecialComps[n] ELSE <<n>>
HasSlash(n) == Len(Comps(n)) > 1
Plain(n) == n \notin DOMAIN SpecialComps

Front(s) == SubSeq(s, 1, Len(s) - 1)
Last(s) == s[Len(s)]
IsPrefix(p, q) == Len(p) <= Len(q) /\ SubSeq(q, 1, Len(p)) = p

VARIABLES tree, fid, obs
vars == <<tree, fid, obs>>
View == <<tree, fid>>

-----------------------------------------------------------------------------
(* POSIX layer *)

NullNode == [k |-> "-", perm |-> 0, data |-> <<>>, tgt |-> "", mt |-> 0]
FNode(perm, data) == [k |-> "F", perm |-> perm, data |-> data, tgt |-> "", mt |-> 1]
DNode(perm) == [k |-> "D", perm |-> perm, data |-> <<>>, tgt |-> "", mt |-> 1]
LNode(tgt) == [k |-> "L", perm |-> 511, data |-> <<>>, tgt |-> tgt, mt |-> 0]
NoEnts == <<>>

K(t, i) == t.node[i].k
Ents(t, i) == t.ents[i]

Parent(t, i) ==
  IF i = TopId THEN TopId
  ELSE CHOOSE d \in Ids : K(t, d) = "D" /\ \E n \in DOMAIN Ents(t, d) : Ents(t, d)[n] = i

(* Linux path resolution from directory `cur`; result: node id, or -errno.  `follow`: follow a
   symlink in the last component (stat) or not (lstat). *)
RECURSIVE Res(_, _, _, _, _)
Res(t, cur, comps, follow, fuel) ==
  IF comps = <<>> THEN cur
  ELSE IF K(t, cur) # "D" THEN 0 - ENOTDIR
  ELSE LET c == Head(comps)
           rest == Tail(comps)
           nxt == IF c \in {"", "."} THEN cur
                  ELSE IF c = ".." THEN Parent(t, cur)
                  ELSE IF c \in DOMAIN Ents(t, cur) THEN Ents(t, cur)[c] ELSE 0 - ENOENT
       IN IF nxt < 0 THEN nxt
          ELSE IF K(t, nxt) = "L" /\ (rest # <<>> \/ follow)
               THEN IF fuel = 0 THEN 0 - ELOOP
                    ELSE Res(t, cur, <<t.node[nxt].tgt>> \o rest, follow, fuel - 1)
               ELSE Res(t, nxt, rest, follow, fuel)

Lstat(t, p) == Res(t, TopId, p, FALSE, 3)
Stat(t, p) == Res(t, TopId, p, TRUE, 3)

Nlink(t, i) == Cardinality(UNION {{<<d, n>> : n \in {m \in DOMAIN Ents(t, d) : Ents(t, d)[m] = i}} : d \in Ids})
FreeIds(t) == {i \in Ids : K(t, i) = "-"}
HasFree(t) == FreeIds(t) # {}
NewId(t) == CHOOSE i \in FreeIds(t) : \A j \in FreeIds(t) : i <= j

(* umask 022 *)
Mask(p) == LET g == (p \div 8) % 8  o == p % 8  u == (p \div 64) % 8
           IN u * 64 + (IF (g \div 2) % 2 = 1 THEN g - 2 ELSE g) * 8 + (IF (o \div 2) % 2 = 1 THEN o - 2 ELSE o)

Touch(t, i) == [t EXCEPT !.node[i].mt = 0]
R(t, e) == [t |-> t, e |-> e, id |-> 0]
RI(t, e, i) == [t |-> t, e |-> e, id |-> i]

AddEnt(t, d, n, i) == [t EXCEPT !.ents[d] = (n :> i) @@ @, !.node[d].mt = 0]
DelEnt(t, d, n) ==
  LET i == Ents(t, d)[n]
      t1 == [t EXCEPT !.ents[d] = [m \in (DOMAIN @) \ {n} |-> @[m]], !.node[d].mt = 0]
  IN IF Nlink(t1, i) = 0 THEN [t1 EXCEPT !.node[i] = NullNode, !.ents[i] = NoEnts] ELSE t1

RmEnt(t, d, n) == [t EXCEPT !.ents[d] = [m \in (DOMAIN @) \ {n} |-> @[m]], !.node[d].mt = 0]   \* entry only, the inode stays

(* the directory that holds the last component of p (following symlinks), or -errno *)
DirOf(t, p) == LET d == Stat(t, Front(p)) IN IF d < 0 THEN d ELSE IF K(t, d) # "D" THEN 0 - ENOTDIR ELSE d

NewNode(t, p, nd) ==      \* create entry Last(p) in its directory
  LET d == DirOf(t, p)  i == NewId(t)
  IN AddEnt([t EXCEPT !.node[i] = nd, !.ents[i] = NoEnts], d, Last(p), i)

P_mkdir(t, p, perm) ==
  LET d == DirOf(t, p)  e == Lstat(t, p)
  IN IF d < 0 THEN R(t, 0 - d)
     ELSE IF e > 0 THEN R(t, EEXIST)
     ELSE IF e # 0 - ENOENT THEN R(t, 0 - e)
     ELSE R(NewNode(t, p, [DNode(Mask(perm)) EXCEPT !.mt = 0]), 0)

P_symlink(t, tgt, p) ==
  LET d == DirOf(t, p)  e == Lstat(t, p)
  IN IF d < 0 THEN R(t, 0 - d)
     ELSE IF e > 0 THEN R(t, EEXIST)
     ELSE IF e # 0 - ENOENT THEN R(t, 0 - e)
     ELSE R(NewNode(t, p, LNode(tgt)), 0)

P_link(t, old, p) ==
  LET o == Lstat(t, old)  d == DirOf(t, p)  e == Lstat(t, p)
  IN IF o < 0 THEN R(t, 0 - o)
     ELSE IF d < 0 THEN R(t, 0 - d)
     ELSE IF e > 0 THEN R(t, EEXIST)
     ELSE IF e # 0 - ENOENT THEN R(t, 0 - e)
     ELSE IF K(t, o) = "D" THEN R(t, EPERM)
     ELSE R(AddEnt(t, d, Last(p), o), 0)

(* open(2): acc 0 read, 1 write, 2 rdwr; follows symlinks *)
P_open(t, p, acc, trunc, creat, perm) ==
  LET i == Stat(t, p)
  IN IF i > 0
     THEN IF K(t, i) = "D"
          THEN IF creat \/ acc # 0 \/ trunc THEN R(t, EISDIR) ELSE RI(t, 0, i)
          ELSE IF trunc THEN RI([t EXCEPT !.node[i].data = <<>>, !.node[i].mt = 0], 0, i) ELSE RI(t, 0, i)
     ELSE IF i = 0 - ENOENT /\ creat /\ DirOf(t, p) > 0 /\ Lstat(t, p) < 0
          THEN LET t1 == NewNode(t, p, [FNode(Mask(perm), <<>>) EXCEPT !.mt = 0]) IN RI(t1, 0, Lstat(t1, p))
          ELSE R(t, 0 - i)

(* os.Remove: unlink, else rmdir *)
P_remove(t, p) ==
  LET i == Lstat(t, p)
  IN IF i < 0 THEN R(t, 0 - i)
     ELSE IF K(t, i) = "D" /\ DOMAIN Ents(t, i) # {} THEN R(t, ENOTEMPTY)
     ELSE R(DelEnt(t, DirOf(t, p), Last(p)), 0)

P_rename(t, p, q) ==
  LET s == Lstat(t, p)  dq == DirOf(t, q)  e == Lstat(t, q)
  IN IF s < 0 THEN R(t, 0 - s)
     ELSE IF dq < 0 THEN R(t, 0 - dq)
     ELSE IF K(t, s) = "D" /\ IsPrefix(p, q) /\ Len(q) > Len(p) THEN R(t, EINVAL)
     ELSE IF e > 0
          THEN IF e = s THEN R(t, 0)
               ELSE IF K(t, s) = "D"
                    THEN IF K(t, e) # "D" THEN R(t, ENOTDIR)
                         ELSE IF DOMAIN Ents(t, e) # {} THEN R(t, ENOTEMPTY)
                         ELSE R(AddEnt(RmEnt(DelEnt(t, dq, Last(q)), DirOf(t, p), Last(p)), dq, Last(q), s), 0)
                    ELSE IF K(t, e) = "D" THEN R(t, EISDIR)
                         ELSE R(AddEnt(RmEnt(DelEnt(t, dq, Last(q)), DirOf(t, p), Last(p)), dq, Last(q), s), 0)
          ELSE IF e # 0 - ENOENT THEN R(t, 0 - e)
          ELSE R(AddEnt(RmEnt(t, DirOf(t, p), Last(p)), dq, Last(q), s), 0)

Resize(d, n) == IF n <= Len(d) THEN SubSeq(d, 1, n) ELSE d \o [j \in 1..(n - Len(d)) |-> 0]

P_truncate(t, p, n) ==
  LET i == Stat(t, p)
  IN IF i < 0 THEN R(t, 0 - i)
     ELSE IF K(t, i) = "D" THEN R(t, EISDIR)
     ELSE R([t EXCEPT !.node[i].data = Resize(@, n), !.node[i].mt = 0], 0)   \* Linux: also when the size stays

P_chmod(t, p, perm) ==
  LET i == Stat(t, p) IN IF i < 0 THEN R(t, 0 - i) ELSE R([t EXCEPT !.node[i].perm = perm], 0)

P_utimes(t, p, m) ==
  LET i == Stat(t, p) IN IF i < 0 THEN R(t, 0 - i) ELSE R([t EXCEPT !.node[i].mt = m], 0)

PWrite(d, off, n) ==
  LET base == IF off > Len(d) THEN Resize(d, off) ELSE d
  IN [j \in 1..(IF off + n > Len(base) THEN off + n ELSE Len(base)) |->
        IF j > off /\ j <= off + n THEN 2 ELSE base[j]]

-----------------------------------------------------------------------------
(* Initial trees.  ids 1..7 are the surroundings of the exported root. *)

Surround(rootents) ==
  [i \in Ids |-> CASE i = 1 -> ("ca" :> 2) @@ ("mid" :> 3)
                   [] i = 3 -> ("cs" :> 4) @@ ("cd" :> 5) @@ ("root" :> 6)
                   [] i = 5 -> ("cf" :> 7)
                   [] i = 6 -> rootents
                   [] OTHER -> NoEnts]
SurroundNodes ==
  [i \in Ids |-> CASE i \in {1, 3, 5, 6} -> DNode(493)
                   [] i = 2 -> FNode(420, <<1>>)
                   [] i = 4 -> FNode(420, <<1, 1>>)
                   [] i = 7 -> FNode(420, <<1>>)
                   [] OTHER -> NullNode]

(* T1: rich static tree for C16.  root { a/ { a(file, hard link of /b), b -> a, c/ { a } }, b(file), c -> zz (dangling) } *)
T1 == [node |-> [SurroundNodes EXCEPT ![8] = DNode(493), ![9] = FNode(420, <<1>>), ![10] = LNode("a"),
                                      ![11] = DNode(448), ![12] = FNode(384, <<>>), ![13] = LNode("zz")],
       ents |-> [Surround(("a" :> 8) @@ ("b" :> 9) @@ ("c" :> 13)) EXCEPT
                   ![8] = ("a" :> 9) @@ ("b" :> 10) @@ ("c" :> 11), ![11] = ("a" :> 12)]]
(* T2: small tree for mutations.  root { a/ { a(file) }, b(file) } *)
T2 == [node |-> [SurroundNodes EXCEPT ![8] = DNode(493), ![9] = FNode(420, <<1, 1>>), ![10] = FNode(384, <<1>>)],
       ents |-> [Surround(("a" :> 8) @@ ("b" :> 10)) EXCEPT ![8] = ("a" :> 9)]]
(* T3: tree for confinement.  root { a/ { b(file) }, cs(file: same name as the canary next to the root) } *)
T3 == [node |-> [SurroundNodes EXCEPT ![8] = DNode(493), ![9] = FNode(420, <<1>>), ![10] = FNode(420, <<>>)],
       ents |-> [Surround(("a" :> 8) @@ ("cs" :> 10)) EXCEPT ![8] = ("b" :> 9)]]
(* T4: a symlink to a directory, a directory symlink to ".", for walks through links.  root { a/ { a }, b -> a, c -> . } *)
T4 == [node |-> [SurroundNodes EXCEPT ![8] = DNode(493), ![9] = FNode(420, <<1>>), ![10] = LNode("a"), ![11] = LNode(".")],
       ents |-> [Surround(("a" :> 8) @@ ("b" :> 10) @@ ("c" :> 11)) EXCEPT ![8] = ("a" :> 9)]]
(* T0: empty root *)
T0 == [node |-> SurroundNodes, ents |-> Surround(NoEnts)]

InitTreeDef == CASE InitTree = "T1" -> T1 [] InitTree = "T2" -> T2 [] InitTree = "T3" -> T3
                 [] InitTree = "T4" -> T4 [] OTHER -> T0

-----------------------------------------------------------------------------
(* Ufs layer *)

FreeFid == [used |-> FALSE, path |-> <<>>, qt |-> "-", open |-> 0 - 1, onode |-> 0]
NoStat == [k |-> "-", perm |-> 0, len |-> 0, name |-> "", mt |-> 0, tgt |-> "", id |-> 0]

Qid(t, i) == [k |-> K(t, i), id |-> i]
StatOf(t, i, name) ==
  [k |-> K(t, i), perm |-> t.node[i].perm,
   len |-> IF K(t, i) = "F" THEN Len(t.node[i].data) ELSE 0,
   name |-> name, mt |-> t.node[i].mt,
   tgt |-> IF Dotu THEN t.node[i].tgt ELSE "", id |-> i]

(* observation of a step: res ok/err; perr = errno of the POSIX call that failed (0: the request
   was refused without a failing POSIX call, nothing to compare); errno = what 9P2000.u carries *)
Ok(op, qids, st) == [op |-> op, res |-> "ok", perr |-> 0, errno |-> 0, qids |-> qids, st |-> st]
Err(op, perr) == [op |-> op, res |-> "err", perr |-> perr,
                  errno |-> IF perr = 0 THEN 0 ELSE IF FixErrno THEN perr ELSE EIO, qids |-> <<>>, st |-> NoStat]

(* lexical normalisation of `comps` onto the absolute path acc; ".." cannot pop below `floor` elements *)
RECURSIVE Norm(_, _, _)
Norm(acc, comps, floor) ==
  IF comps = <<>> THEN acc
  ELSE LET c == Head(comps)
       IN Norm(IF c \in {"", "."} THEN acc
               ELSE IF c = ".." THEN (IF Len(acc) <= floor THEN acc ELSE Front(acc))
               ELSE Append(acc, c), Tail(comps), floor)
Clean(p) == Norm(<<>>, p, 0)
Floor == IF FixConfine THEN Len(RootPath) ELSE 0
Dotted(p) == p # <<>> /\ Last(p) \in {"", ".", ".."}

Acc(m) == LET a == m % 16 IN IF a = 3 THEN 0 ELSE a
Trunc(m) == m >= 16

Init ==
  /\ tree = InitTreeDef
  /\ fid = [f \in Fids |-> FreeFid]
  /\ obs = Ok(<<"Init">>, <<>>, NoStat)

Attach(f, an) ==
  /\ "Attach" \in Ops /\ ~fid[f].used
  /\ LET op == <<"Attach", f, an>>
         p == Norm(RootPath, Comps(an), Floor)
         i == Lstat(tree, p)
     IN IF i < 0 THEN /\ obs' = Err(op, 0) /\ UNCHANGED fid
        ELSE /\ fid' = [fid EXCEPT ![f] = [used |-> TRUE, path |-> p, qt |-> K(tree, i), open |-> 0 - 1, onode |-> 0]]
             /\ obs' = Ok(op, <<Qid(tree, i)>>, NoStat)
  /\ UNCHANGED tree

(* one element of a walk: the path it leads to *)
WStep(path, name) ==
  IF FixConfine
  THEN IF name = ".." THEN (LET c == Clean(path) IN IF Len(c) <= Len(RootPath) THEN c ELSE Front(c))
       ELSE path \o <<name>>
  ELSE path \o Comps(name)
WExists(t, path, name) == (FixConfine /\ HasSlash(name)) = FALSE /\ Lstat(t, WStep(path, name)) > 0

RECURSIVE WalkLoop(_, _, _, _)
WalkLoop(t, path, names, acc) ==
  IF names = <<>> \/ ~WExists(t, path, Head(names)) THEN [path |-> path, q |-> acc]
  ELSE LET p == WStep(path, Head(names))
       IN WalkLoop(t, p, Tail(names), Append(acc, Qid(t, Lstat(t, p))))

WalkNames == Names \cup Specials
RECURSIVE SeqsUpTo(_, _)
SeqsUpTo(S, n) == IF n = 0 THEN {<<>>} ELSE LET r == SeqsUpTo(S, n - 1) IN r \cup {Append(s, x) : s \in {y \in r : Len(y) = n - 1}, x \in S}

Walk(f, nf, names) ==
  /\ "Walk" \in Ops /\ fid[f].used /\ (nf = f \/ ~fid[nf].used)
  /\ Len(fid[f].path) + Len(names) <= MaxPath     \* "." and "" elements stay in the path: bound it
  /\ LET op == <<"Walk", f, nf, names>>
         F == fid[f]
         n == Len(names)
     IN IF (n > 0 /\ F.qt # "D") \/ F.open >= 0 \/ Lstat(tree, F.path) < 0
        THEN /\ obs' = Err(op, 0) /\ UNCHANGED fid
        ELSE LET w == WalkLoop(tree, F.path, names, <<>>)
                 k == Len(w.q)
             IN IF k = 0 /\ n > 0 THEN /\ obs' = Err(op, 0) /\ UNCHANGED fid
                ELSE /\ obs' = Ok(op, w.q, NoStat)
                     /\ IF k = n
                        THEN fid' = [fid EXCEPT ![nf] = [used |-> TRUE, path |-> w.path,
                                                        qt |-> IF k > 0 THEN w.q[k].k ELSE F.qt,
                                                        open |-> 0 - 1, onode |-> 0]]
                        ELSE IF FixWalk \/ nf # f THEN UNCHANGED fid
                        ELSE fid' = [fid EXCEPT ![f].path = w.path, ![f].qt = w.q[k].k]
  /\ UNCHANGED tree

StatName(p) == IF Clean(p) = RootPath /\ ~Dotted(p) THEN "root" ELSE Last(p)

StatF(f) ==
  /\ "Stat" \in Ops /\ fid[f].used
  /\ LET op == <<"Stat", f>>
         i == Lstat(tree, fid[f].path)
     IN obs' = IF i < 0 THEN Err(op, 0) ELSE Ok(op, <<>>, StatOf(tree, i, StatName(fid[f].path)))
  /\ UNCHANGED <<tree, fid>>

(* the fid's recorded type is current (a stale type after remove + re-create is out of scope) *)
(* IF, not \/: inside an action TLC evaluates both disjuncts *)
Fresh(F) == LET i == Lstat(tree, F.path) IN IF i < 0 THEN TRUE ELSE K(tree, i) = F.qt
NotLink(F) == LET i == Lstat(tree, F.path) IN IF i < 0 THEN TRUE ELSE K(tree, i) # "L"
(* no proper prefix of p is a symlink (the path does not lead THROUGH a link) *)
NoLinkPrefix(p) == \A j \in 1..(Len(p) - 1) : LET i == Lstat(tree, SubSeq(p, 1, j)) IN IF i < 0 THEN TRUE ELSE K(tree, i) # "L"
DetachOpen(fd, t) == [g \in Fids |-> IF fd[g].onode # 0 /\ K(t, fd[g].onode) = "-" THEN [fd[g] EXCEPT !.onode = 0] ELSE fd[g]]

Open(f, m) ==
  /\ "Open" \in Ops /\ fid[f].used /\ Fresh(fid[f])    \* a fid on a symbolic link opens what the link leads to, and still is the link
  /\ fid[f].open < 0     \* Topen on an open fid is refused by srv_fcall.go (fid-table rules: C04/C05, not modelled here)
  /\ LET op == <<"Open", f, m>>
         F == fid[f]
     IN IF F.open >= 0 \/ (F.qt = "D" /\ m # 0) \/ Lstat(tree, F.path) < 0
        THEN /\ obs' = Err(op, 0) /\ UNCHANGED <<tree, fid>>
        ELSE LET r == P_open(tree, F.path, Acc(m), Trunc(m), FALSE, 0)
             IN IF r.e # 0 THEN /\ obs' = Err(op, 0) /\ UNCHANGED <<tree, fid>>
                ELSE /\ tree' = r.t
                     /\ fid' = [fid EXCEPT ![f].open = m, ![f].onode = r.id]
                     /\ obs' = Ok(op, <<Qid(r.t, Lstat(r.t, F.path))>>, NoStat)

CreateNames == Names \cup Specials
ValidName(n) == Plain(n)

(* kind: "F" file, "D" directory, "L" symlink to ext, "H" hard link to the file of fid number g,
   "P" named pipe: Ufs.Create creates nothing for DMNAMEDPIPE and then opens the name like the other special kinds, so it
   fails with ENOENT on a free name and opens whatever already has the name (what the code does, named here) *)
Create(f, name, kind, perm, m, ext, g) ==
  /\ "Create" \in Ops /\ fid[f].used /\ Fresh(fid[f]) /\ HasFree(tree)
  /\ kind \in CreateKinds
  /\ (kind = "H") = (g # 0)
  /\ g # 0 => fid[g].used /\ g # f /\ ~Dotted(fid[g].path) /\ NotLink(fid[g])   \* hard link to a symlink: out of scope
  /\ (kind = "L") = (ext # "")
  /\ kind \in {"L", "H", "P"} => m = 0 /\ perm = 420
  /\ kind = "D" => m = 0
  /\ LET op == <<"Create", f, name, kind, perm, m, ext, g>>
         F == fid[f]
         p == IF FixConfine THEN F.path \o <<name>> ELSE F.path \o Comps(name)
         ls == Lstat(tree, F.path)
     IN /\ (kind = "F" /\ Lstat(tree, p) > 0) => K(tree, Lstat(tree, p)) # "L"   \* creating through an existing symlink: out of scope
        /\ IF F.open >= 0 \/ F.qt # "D" \/ (kind \in {"L", "H", "P"} /\ ~Dotu)
           THEN /\ obs' = Err(op, 0) /\ UNCHANGED <<tree, fid>>
           ELSE IF ls < 0 THEN /\ obs' = Err(op, 0 - ls) /\ UNCHANGED <<tree, fid>>
           ELSE IF FixConfine /\ ~ValidName(name) THEN /\ obs' = Err(op, 0) /\ UNCHANGED <<tree, fid>>
           ELSE LET r1 == CASE kind = "D" -> P_mkdir(tree, p, perm)
                            [] kind = "L" -> P_symlink(tree, ext, p)
                            [] kind = "H" -> P_link(tree, fid[g].path, p)
                            [] kind = "P" -> R(tree, 0)
                            [] OTHER -> P_open(tree, p, Acc(m), Trunc(m), TRUE, perm)
                IN IF r1.e # 0 THEN /\ obs' = Err(op, r1.e) /\ UNCHANGED <<tree, fid>>
                   ELSE LET r2 == IF kind = "F" THEN r1 ELSE P_open(r1.t, p, Acc(m), Trunc(m), FALSE, 0)
                            okfid == [fid EXCEPT ![f].path = p, ![f].qt = K(r2.t, Lstat(r2.t, p)),
                                                 ![f].open = m, ![f].onode = IF r2.e = 0 THEN r2.id ELSE 0]
                        IN IF r2.e = 0 \/ (FixDangling /\ kind = "L")
                           THEN /\ tree' = r2.t /\ fid' = okfid
                                /\ obs' = Ok(op, <<Qid(r2.t, Lstat(r2.t, p))>>, NoStat)
                           ELSE /\ tree' = r2.t /\ UNCHANGED fid       \* defect: Rerror, yet the link stays
                                /\ obs' = Err(op, r2.e)

Remove(f) ==
  /\ "Remove" \in Ops /\ fid[f].used /\ ~Dotted(fid[f].path) /\ Clean(fid[f].path) # RootPath
  /\ NoLinkPrefix(fid[f].path)
  /\ IsPrefix(RootPath, fid[f].path) \/ ~FixConfine
  /\ LET op == <<"Remove", f>>
         F == fid[f]
         r == P_remove(tree, F.path)
     IN /\ tree' = r.t
        /\ fid' = DetachOpen([fid EXCEPT ![f] = FreeFid], r.t)
        /\ obs' = IF r.e # 0 THEN Err(op, r.e) ELSE Ok(op, <<>>, NoStat)

RenameDest(F, nn) ==
  LET c == Comps(nn)
  IN IF Len(c) > 1 /\ c[1] = "" THEN Norm(RootPath, c, Floor) ELSE Norm(Front(Clean(F.path)), c, Floor)

Rename(f, nn) ==
  /\ "Rename" \in Ops /\ fid[f].used /\ ~Dotted(fid[f].path) /\ Clean(fid[f].path) # RootPath /\ nn # ""
  /\ NoLinkPrefix(fid[f].path)     \* renaming through a symlinked directory (lexical vs physical parent): out of scope
  /\ LET op == <<"Rename", f, nn>>
         F == fid[f]
         q == RenameDest(F, nn)
         r == P_rename(tree, F.path, q)
     IN IF Lstat(tree, F.path) < 0 \/ r.e # 0 THEN /\ obs' = Err(op, 0) /\ UNCHANGED <<tree, fid>>
        ELSE /\ tree' = r.t /\ fid' = DetachOpen([fid EXCEPT ![f].path = q], r.t) /\ obs' = Ok(op, <<>>, NoStat)

WstatOp(f, op, P(_, _)) ==
  /\ fid[f].used /\ NotLink(fid[f])
  /\ LET F == fid[f]
         r == P(tree, F.path)
     IN IF Lstat(tree, F.path) < 0 \/ r.e # 0 THEN /\ obs' = Err(op, 0) /\ UNCHANGED tree
        ELSE /\ tree' = r.t /\ obs' = Ok(op, <<>>, NoStat)
  /\ UNCHANGED fid

Truncate(f, n) == "Truncate" \in Ops /\ LET P(t, p) == P_truncate(t, p, n) IN WstatOp(f, <<"Truncate", f, n>>, P)
Chmod(f, perm) == "Chmod" \in Ops /\ LET P(t, p) == P_chmod(t, p, perm) IN WstatOp(f, <<"Chmod", f, perm>>, P)
Mtime(f, m) == "Mtime" \in Ops /\ LET P(t, p) == P_utimes(t, p, m) IN WstatOp(f, <<"Mtime", f, m>>, P)

(* One Twstat that sets several fields at once.  ufs.go applies them in the order chmod, (chown,)
   rename, truncate, times, each to the path the fid designates at that point; the first failing
   call ends the request with Rerror, what was done before stays done, and the fid has followed a
   rename that succeeded.  "Don't touch": nn = "", n = -1, perm = -1, m = 0.  q = <<>>: no rename. *)
WstatSeq(t0, p0, q, n, perm, m) ==
  LET r1 == IF perm >= 0 THEN P_chmod(t0, p0, perm) ELSE R(t0, 0)
      r2 == IF r1.e = 0 /\ q # <<>> THEN P_rename(r1.t, p0, q) ELSE r1
      p2 == IF r1.e = 0 /\ q # <<>> /\ r2.e = 0 THEN q ELSE p0
      r3 == IF r2.e = 0 /\ n >= 0 THEN P_truncate(r2.t, p2, n) ELSE r2
      r4 == IF r3.e = 0 /\ m > 0 THEN P_utimes(r3.t, p2, m) ELSE r3
  IN [t |-> r4.t, e |-> r4.e, path |-> p2]

NFields(nn, n, perm, m) == (IF nn # "" THEN 1 ELSE 0) + (IF n >= 0 THEN 1 ELSE 0) + (IF perm >= 0 THEN 1 ELSE 0) + (IF m > 0 THEN 1 ELSE 0)

Wstat(f, nn, n, perm, m) ==
  /\ "Wstat" \in Ops /\ fid[f].used
  /\ NFields(nn, n, perm, m) >= 2          \* single fields are Rename, Truncate, Chmod, Mtime
  /\ nn # "" => ~Dotted(fid[f].path) /\ Clean(fid[f].path) # RootPath /\ NoLinkPrefix(fid[f].path)
  /\ IF NFields("", n, perm, m) > 0 THEN NotLink(fid[f]) ELSE TRUE
  /\ LET op == <<"Wstat", f, nn, n, perm, m>>
         F == fid[f]
         q == IF nn = "" THEN <<>> ELSE RenameDest(F, nn)
         r == WstatSeq(tree, F.path, q, n, perm, m)
     IN IF Lstat(tree, F.path) < 0 THEN /\ obs' = Err(op, 0) /\ UNCHANGED <<tree, fid>>
        ELSE /\ tree' = r.t
             /\ fid' = DetachOpen([fid EXCEPT ![f].path = r.path], r.t)
             /\ obs' = IF r.e # 0 THEN Err(op, 0) ELSE Ok(op, <<>>, NoStat)

Write(f, off, n) ==
  /\ "Write" \in Ops /\ fid[f].used /\ fid[f].open >= 0 /\ Acc(fid[f].open) \in {1, 2} /\ fid[f].open % 16 # 3
  /\ off + n <= MaxLen
  /\ LET F == fid[f] IN
     /\ F.onode # 0 /\ Lstat(tree, F.path) = F.onode /\ K(tree, F.onode) = "F"
     /\ tree' = [tree EXCEPT !.node[F.onode].data = PWrite(@, off, n), !.node[F.onode].mt = 0]
     /\ obs' = Ok(<<"Write", f, off, n>>, <<>>, NoStat)
  /\ UNCHANGED fid

Clunk(f) ==
  /\ "Clunk" \in Ops /\ fid[f].used
  /\ fid' = [fid EXCEPT ![f] = FreeFid]
  /\ obs' = Ok(<<"Clunk", f>>, <<>>, NoStat)
  /\ UNCHANGED tree

Next ==
  \/ \E f \in Fids, an \in AttachNames : Attach(f, an)
  \/ \E f \in Fids, nf \in Fids, names \in SeqsUpTo(WalkNames, MaxWalk) : Walk(f, nf, names)
  \/ \E f \in Fids : StatF(f)
  \/ \E f \in Fids, m \in Modes : Open(f, m)
  \/ \E f \in Fids, name \in CreateNames, perm \in Perms, m \in Modes : Create(f, name, "F", perm, m, "", 0)
  \/ \E f \in Fids, name \in CreateNames, perm \in Perms : Create(f, name, "D", perm, 0, "", 0)
  \/ \E f \in Fids, name \in CreateNames, ext \in LinkTargets : Create(f, name, "L", 420, 0, ext, 0)
  \/ \E f \in Fids, name \in CreateNames, g \in Fids : Create(f, name, "H", 420, 0, "", g)
  \/ \E f \in Fids, name \in CreateNames : Create(f, name, "P", 420, 0, "", 0)
  \/ \E f \in Fids : Remove(f)
  \/ \E f \in Fids, nn \in RenameNames : Rename(f, nn)
  \/ \E f \in Fids, n \in Lens : Truncate(f, n)
  \/ \E f \in Fids, perm \in Perms : Chmod(f, perm)
  \/ \E f \in Fids, m \in Mtimes : Mtime(f, m)
  \/ \E f \in Fids, nn \in RenameNames \cup {""}, n \in Lens \cup {0 - 1}, perm \in Perms \cup {0 - 1}, m \in Mtimes \cup {0} :
        Wstat(f, nn, n, perm, m)
  \/ \E f \in Fids, off \in Lens, n \in 1..2 : Write(f, off, n)
  \/ \E f \in Fids : Clunk(f)

Spec == Init /\ [][Next]_vars

-----------------------------------------------------------------------------
(* Properties.  o = obs' is the observation of the step; unprimed variables are the state before. *)

OpIs(o, name) == o.op[1] = name
AllPlain(names) == \A j \in 1..Len(names) : Plain(names[j])

(* C16 *)
WalkAtomicA ==
  LET o == obs' IN OpIs(o, "Walk") =>
    /\ o.res = "err" => fid' = fid
    /\ (o.res = "ok" /\ Len(o.qids) < Len(o.op[4])) => fid' = fid
    /\ (o.res = "ok" /\ Len(o.qids) = Len(o.op[4])) =>
          /\ \A g \in Fids : g # o.op[3] => fid'[g] = fid[g]
          /\ fid'[o.op[3]].used /\ fid'[o.op[3]].open < 0
WalkAtomic == [][WalkAtomicA]_vars

(* for plain names: one qid per existing leading element (POSIX lookup of each prefix), an error
   iff the first is missing (or the walk is refused), the new fid designates the last element *)
WalkPrefixA ==
  LET o == obs' IN (OpIs(o, "Walk") /\ AllPlain(o.op[4])) =>
    LET F == fid[o.op[2]]
        names == o.op[4]
        n == Len(names)
        Ex(j) == Lstat(tree, F.path \o SubSeq(names, 1, j)) > 0
        refused == (n > 0 /\ F.qt # "D") \/ F.open >= 0 \/ Lstat(tree, F.path) < 0
    IN IF refused \/ (n > 0 /\ ~Ex(1)) THEN o.res = "err"
       ELSE /\ o.res = "ok"
            /\ \A j \in 1..Len(o.qids) : Ex(j) /\ o.qids[j].id = Lstat(tree, F.path \o SubSeq(names, 1, j))
            /\ Len(o.qids) <= n
            /\ Len(o.qids) < n => ~Ex(Len(o.qids) + 1)
            /\ Len(o.qids) = n => Lstat(tree, fid'[o.op[3]].path) = Lstat(tree, F.path \o names)
WalkPrefix == [][WalkPrefixA]_vars

QidIdentityA ==
  LET o == obs' IN \A j \in 1..Len(o.qids) : o.qids[j].id \in Ids /\ o.qids[j].k = K(tree', o.qids[j].id) /\ o.qids[j].k # "-"
QidIdentity == [][QidIdentityA]_vars

StatAgreesA ==
  LET o == obs' IN OpIs(o, "Stat") =>
    LET i == Lstat(tree, fid[o.op[2]].path)
    IN IF i < 0 THEN o.res = "err"
       ELSE /\ o.res = "ok" /\ o.st.id = i /\ o.st.k = K(tree, i) /\ o.st.perm = tree.node[i].perm
            /\ o.st.mt = tree.node[i].mt
            /\ (K(tree, i) = "F" => o.st.len = Len(tree.node[i].data))
            /\ (~Dotted(fid[o.op[2]].path) /\ Clean(fid[o.op[2]].path) # RootPath) => o.st.name = Last(fid[o.op[2]].path)
            /\ (Dotu /\ K(tree, i) = "L") => o.st.tgt = tree.node[i].tgt
StatAgrees == [][StatAgreesA]_vars

(* C17.  The POSIX operation a mutating request corresponds to, on the confined path. *)
PosixOf(o) ==
  LET F == fid[o.op[2]] IN
  CASE OpIs(o, "Create") ->
         LET p == F.path \o <<o.op[3]>>  kind == o.op[4]  m == o.op[6]
             r1 == CASE kind = "D" -> P_mkdir(tree, p, o.op[5])
                     [] kind = "L" -> P_symlink(tree, o.op[7], p)
                     [] kind = "H" -> P_link(tree, fid[o.op[8]].path, p)
                     [] OTHER -> P_open(tree, p, Acc(m), Trunc(m), TRUE, o.op[5])
         IN r1
    [] OpIs(o, "Remove") -> P_remove(tree, F.path)
    [] OpIs(o, "Rename") -> P_rename(tree, F.path, RenameDest(F, o.op[3]))
    [] OpIs(o, "Truncate") -> P_truncate(tree, F.path, o.op[3])
    [] OpIs(o, "Chmod") -> P_chmod(tree, F.path, o.op[3])
    [] OpIs(o, "Mtime") -> P_utimes(tree, F.path, o.op[3])
    [] OpIs(o, "Open") -> P_open(tree, F.path, Acc(o.op[3]), Trunc(o.op[3]), FALSE, 0)
    [] OTHER -> R(tree, 0)

Mutating == {"Create", "Remove", "Rename", "Truncate", "Chmod", "Mtime", "Open", "Write", "Wstat"}
MutationsMirrorA ==
  LET o == obs' IN
    /\ o.op[1] \notin Mutating => tree' = tree
    \* (a create of a named pipe is not one of the mutating requests C17 lists; Ufs creates nothing for it)
    /\ (o.op[1] \in Mutating \ {"Write", "Wstat"} /\ o.res = "ok" /\ (OpIs(o, "Create") => Plain(o.op[3]) /\ o.op[4] # "P")) =>
          LET r == PosixOf(o)
          IN /\ r.e = 0
             /\ IF OpIs(o, "Create") /\ o.op[4] # "F"
                THEN \* then the new object is opened with the requested mode (no further change for OREAD)
                     tree' = r.t
                ELSE tree' = r.t
    /\ (o.op[1] \in Mutating \ {"Write", "Wstat"} /\ o.res = "err") => tree' = tree
    /\ OpIs(o, "Wstat") =>            \* several fields: each requested change made, in ufs.go's order
          LET F == fid[o.op[2]]  nn == o.op[3]  n == o.op[4]  perm == o.op[5]  m == o.op[6]
              i == Lstat(tree, F.path)
              q == IF nn = "" THEN <<>> ELSE RenameDest(F, nn)
          IN IF i < 0 THEN o.res = "err" /\ tree' = tree
             ELSE /\ tree' = WstatSeq(tree, F.path, q, n, perm, m).t
                  /\ o.res = "ok" =>
                        /\ Lstat(tree', IF nn = "" THEN F.path ELSE q) = i
                        /\ perm >= 0 => tree'.node[i].perm = perm
                        /\ n >= 0 => Len(tree'.node[i].data) = n
                        /\ m > 0 => tree'.node[i].mt = m
                        /\ (perm < 0 => tree'.node[i].perm = tree.node[i].perm)
                        /\ (n < 0 => tree'.node[i].data = tree.node[i].data)
MutationsMirror == [][MutationsMirrorA]_vars

FailedCreateRemoveChangesNothingA ==
  LET o == obs' IN (o.op[1] \in {"Create", "Remove"} /\ o.res = "err") => tree' = tree
FailedCreateRemoveChangesNothing == [][FailedCreateRemoveChangesNothingA]_vars

ErrnoCarriedA ==
  LET o == obs' IN (Dotu /\ o.op[1] \in {"Create", "Remove"} /\ o.res = "err" /\ o.perr # 0) => o.errno = o.perr
ErrnoCarried == [][ErrnoCarriedA]_vars

FidFollowsA ==
  LET o == obs' IN
    /\ (OpIs(o, "Create") /\ o.res = "ok" /\ o.op[4] # "P") =>
          /\ Lstat(tree', fid'[o.op[2]].path) = o.qids[1].id
          /\ Plain(o.op[3]) => fid'[o.op[2]].path = fid[o.op[2]].path \o <<o.op[3]>>
          /\ Lstat(tree, fid'[o.op[2]].path) < 0 \/ o.op[4] = "F"        \* it is the created object
    /\ (OpIs(o, "Rename") /\ o.res = "ok") =>
          /\ Lstat(tree', fid'[o.op[2]].path) = Lstat(tree, fid[o.op[2]].path)
          /\ fid'[o.op[2]].path = RenameDest(fid[o.op[2]], o.op[3])
    /\ (OpIs(o, "Wstat") /\ o.op[3] # "" /\ o.res = "ok") =>
          /\ Lstat(tree', fid'[o.op[2]].path) = Lstat(tree, fid[o.op[2]].path)
          /\ fid'[o.op[2]].path = RenameDest(fid[o.op[2]], o.op[3])
FidFollowsCreateRename == [][FidFollowsA]_vars

(* C18 *)
InitT == InitTreeDef
ConfinedState ==
  /\ \A f \in Fids : fid[f].used => /\ IsPrefix(RootPath, fid[f].path)
                                    /\ \A j \in 1..Len(fid[f].path) : fid[f].path[j] # ".."
                                    /\ Lstat(tree, fid[f].path) \notin OutsideIds \ {RootId}
  /\ \A i \in OutsideIds : tree.node[i] = InitT.node[i] /\ tree.ents[i] = InitT.ents[i]
  /\ tree.node[RootId].k = "D"
ConfinedA == LET o == obs' IN \A j \in 1..Len(o.qids) : o.qids[j].id \notin OutsideIds \/ o.qids[j].id = RootId
Confined == [][ConfinedA]_vars
(* ".." at the root stays at the root *)
DotDotAtRootA ==
  LET o == obs' IN (OpIs(o, "Walk") /\ o.res = "ok" /\ fid[o.op[2]].path = RootPath /\ o.op[4] = <<"..">>) =>
     o.qids = <<Qid(tree, RootId)>> /\ Clean(fid'[o.op[3]].path) = RootPath
DotDotAtRoot == [][DotDotAtRootA]_vars

TypeOK ==
  /\ \A i \in Ids : tree.node[i].k \in {"-", "F", "D", "L"}
  /\ \A i \in Ids : K(tree, i) # "D" => tree.ents[i] = NoEnts
  /\ \A i \in Ids : \A n \in DOMAIN tree.ents[i] : K(tree, tree.ents[i][n]) # "-"
  /\ \A i \in Ids : (K(tree, i) # "-" /\ i # TopId) => Nlink(tree, i) >= 1
  /\ \A i \in Ids : K(tree, i) = "D" /\ i # TopId => Nlink(tree, i) = 1
  /\ \A i \in Ids : Len(tree.node[i].data) <= MaxLen
=============================================================================
