---------------------------- MODULE UfsTreeTrace ----------------------------
(* Trace validation for UfsTree.  Each ndjson line is one step executed by harness/ufstree on the
   TWIN tree (plain os calls): the action with its arguments, the observation (result, errno of the
   failing POSIX call, kinds and hard-link classes of the qids, stat fields), the twin's fid table
   and -- whenever the twin tree changed -- the complete listing of the twin world (exported root,
   canaries next to and above it) with the hard-link classes.  A line is accepted iff the named
   action of UfsTree is enabled and leads to a state with exactly that observation, fid table and
   tree.  So an accepted case means: model = twin, step by step; the harness compares twin = 9P.

   Cases are concatenated; a "Reset" line (with the listing of the freshly built tree, which must
   equal the model's initial tree) starts the next one.  A line that cannot be matched is printed
   as REJECT and the rest of its case is skipped. *)
EXTENDS UfsTree, Json, IOUtils

TraceFile == IF "TRACE_FILE" \in DOMAIN IOEnv THEN IOEnv.TRACE_FILE ELSE "trace.ndjson"
Trace == ndJsonDeserialize(TraceFile)

VARIABLES l, failed, case, done
tvars == <<l, failed, case, done>>

Line == Trace[l]
Arg(i) == Line.args[i]
SeqSet(s) == {s[i] : i \in 1..Len(s)}

RECURSIVE Sub(_, _, _)
Sub(t, i, p) ==
  {[p |-> p, k |-> K(t, i), perm |-> t.node[i].perm, data |-> t.node[i].data, tgt |-> t.node[i].tgt, mt |-> t.node[i].mt]}
  \cup (IF K(t, i) = "D" THEN UNION {Sub(t, Ents(t, i)[n], Append(p, n)) : n \in DOMAIN Ents(t, i)} ELSE {})
Listing(t) == UNION {Sub(t, Ents(t, TopId)[n], <<n>>) : n \in DOMAIN Ents(t, TopId)}
Paths(t, i) == {r.p : r \in {x \in Listing(t) : Lstat(t, x.p) = i}}
LinkClasses(t) == {Paths(t, i) : i \in {j \in Ids : K(t, j) # "-" /\ K(t, j) # "D" /\ Nlink(t, j) > 1}}

TreeIs(t, ln) ==
  /\ Listing(t) = SeqSet(ln.tree)
  /\ LinkClasses(t) = {SeqSet(c) : c \in SeqSet(ln.links)}

StatMatches(o, m, t) ==
  /\ o.k = m.k
  /\ m.k # "-" => /\ o.perm = m.perm /\ o.len = m.len /\ o.name = m.name /\ o.mt = m.mt /\ o.tgt = m.tgt
                  /\ SeqSet(o.cls) = Paths(t, m.id)

PostMatches ==
  LET o == Line.o  m == obs' IN
  /\ o.res = m.res
  /\ o.perr = m.perr
  /\ Len(o.qids) = Len(m.qids)
  /\ \A j \in 1..Len(m.qids) : o.qids[j].k = m.qids[j].k /\ SeqSet(o.qids[j].cls) = Paths(tree', m.qids[j].id)
  /\ StatMatches(o.st, m.st, tree')
  /\ \A f \in Fids : /\ fid'[f].used = (Line.fids[f][1] = 1)
                     /\ fid'[f].used => fid'[f].path = Line.fids[f][2] /\ fid'[f].open = Line.fids[f][3]
  /\ IF Line.m = 1 THEN TreeIs(tree', Line) ELSE tree' = tree

Ev(name) == l <= Len(Trace) /\ ~failed /\ Line.act = name

Step ==
  \/ Ev("Attach") /\ Attach(Arg(1), Arg(2))
  \/ Ev("Walk") /\ Walk(Arg(1), Arg(2), Arg(3))
  \/ Ev("Stat") /\ StatF(Arg(1))
  \/ Ev("Open") /\ Open(Arg(1), Arg(2))
  \/ Ev("Create") /\ Create(Arg(1), Arg(2), Arg(3), Arg(4), Arg(5), Arg(6), Arg(7))
  \/ Ev("Remove") /\ Remove(Arg(1))
  \/ Ev("Rename") /\ Rename(Arg(1), Arg(2))
  \/ Ev("Truncate") /\ Truncate(Arg(1), Arg(2))
  \/ Ev("Chmod") /\ Chmod(Arg(1), Arg(2))
  \/ Ev("Mtime") /\ Mtime(Arg(1), Arg(2))
  \/ Ev("Wstat") /\ Wstat(Arg(1), Arg(2), Arg(3), Arg(4), Arg(5))
  \/ Ev("Write") /\ Write(Arg(1), Arg(2), Arg(3))
  \/ Ev("Clunk") /\ Clunk(Arg(1))

TraceInit == Init /\ l = 1 /\ failed = FALSE /\ case = 0 /\ done = FALSE

Matched == Step /\ PostMatches /\ l' = l + 1 /\ UNCHANGED <<failed, case, done>>

ResetStep ==
  /\ l <= Len(Trace) /\ Line.act = "Reset"
  /\ tree' = InitTreeDef /\ fid' = [f \in Fids |-> FreeFid] /\ obs' = Ok(<<"Init">>, <<>>, NoStat)
  /\ l' = l + 1 /\ case' = Line.case /\ UNCHANGED done
  /\ IF TreeIs(InitTreeDef, Line) THEN failed' = FALSE
     ELSE /\ PrintT(<<"REJECT", Line.case, l, "Reset", <<"initial tree differs">>>>) /\ failed' = TRUE

Reject ==
  /\ l <= Len(Trace) /\ ~failed /\ Line.act # "Reset"
  /\ ~ENABLED Matched
  /\ PrintT(<<"REJECT", case, l, Line.act, Line.args>>)
  /\ failed' = TRUE /\ l' = l + 1 /\ UNCHANGED <<vars, case, done>>

SkipStep ==
  /\ l <= Len(Trace) /\ failed /\ Line.act # "Reset"
  /\ l' = l + 1 /\ UNCHANGED <<vars, failed, case, done>>

Finish == /\ l = Len(Trace) + 1 /\ ~done /\ PrintT(<<"CONSUMED", Len(Trace)>>)
          /\ done' = TRUE /\ UNCHANGED <<vars, l, failed, case>>

TraceNext == Matched \/ ResetStep \/ Reject \/ SkipStep \/ Finish
TraceSpec == TraceInit /\ [][TraceNext]_<<vars, tvars>>
=============================================================================
