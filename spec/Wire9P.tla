------------------------------- MODULE Wire9P -------------------------------
(***************************************************************************)
(* The 9P2000 / 9P2000.u message codec as DATA.                            *)
(*                                                                         *)
(* Written from the protocol manual (intro(5): "Each message consists of a *)
(* sequence of bytes. Two-, four-, and eight-byte fields hold unsigned     *)
(* integers represented in little-endian order ... size[4] type[1] tag[2]  *)
(* ... Text strings are represented with a two-byte count followed by the  *)
(* bytes ... qid[13] = type[1] vers[4] path[8]", stat(5) and the 9P2000.u  *)
(* draft), NOT from go9p's packer.                                         *)
(*                                                                         *)
(*   Layout(t, dotu)   field descriptors of message type t in a dialect    *)
(*   Enc(t,dotu,tag,m) the packet as a list of SEGMENTS: literal byte runs *)
(*                     [lit |-> <<b1,...>>] and symbolic fills             *)
(*                     [fill |-> <<len, pat>>] (byte i, from 0, of a fill  *)
(*                     is (pat+i) % 256), so 65535-byte strings and        *)
(*                     megabyte payloads cost nothing; plus the size       *)
(*   Parse(b, dotu)    recogniser over concrete (small) byte sequences:    *)
(*                     accept with the field values, or malformed          *)
(*                                                                         *)
(* Integers are NUMERALS: sequences of byte values, most significant       *)
(* first (TLC integers are 32 bit).  LE(v) == Reverse(v) is the statement  *)
(* "integers are little-endian" of the manual.                             *)
(*                                                                         *)
(* Two jobs, selected by the constant Job:                                 *)
(*  "enc": VSeq = for every selected type x dialect the product of the     *)
(*         field value classes, each with expected segments and size (C01) *)
(*  "dec": VSeq = for the canonical small packet of every selected type x  *)
(*         dialect every truncation, declared-size variation and           *)
(*         substitution at count/length fields with the verdict of Parse   *)
(*         (C02)                                                           *)
(* VSeq is exported as ndjson (one vector per line) and every vector is    *)
(* also an initial state of the (stuttering) behaviour spec, so that TLC checks the    *)
(* specification's own consistency on each: sizes add up, Parse inverts    *)
(* Enc, proper prefixes of a packet are never packets, etc.                *)
(***************************************************************************)
EXTENDS Integers, Sequences, FiniteSets, TLC, Json, SequencesExt

CONSTANTS Job,       \* "enc" | "dec"
          Sel,       \* set of type names to generate (a shard); "stat" = bare stat record
          Dialects,  \* subset of BOOLEAN: FALSE = 9P2000, TRUE = 9P2000.u
          Full,      \* TRUE: all classes (thorough); FALSE: reduced stat-string product (quick)
          OutFile    \* ndjson file to write

-----------------------------------------------------------------------------
(* Numerals *)
RECURSIVE Num(_, _)
Num(n, w) == IF w = 0 THEN <<>> ELSE Num(n \div 256, w - 1) \o <<n % 256>>   \* n < 2^31
ZeroN(w) == [i \in 1..w |-> 0]
OneN(w)  == [i \in 1..w |-> IF i = w THEN 1 ELSE 0]
MaxN(w)  == [i \in 1..w |-> 255]
LE(v)   == Reverse(v)                      \* little-endian byte order on the wire
\* value of a numeral if it is < 2^24, else -1 ("huge")
RECURSIVE ValN(_)
ValN(v) == IF v = <<>> THEN 0 ELSE 256 * ValN(SubSeq(v, 1, Len(v) - 1)) + v[Len(v)]
ValSmall(v) == LET n == Len(v) IN
               IF n <= 3 THEN ValN(v)
               ELSE IF \A i \in 1..(n - 3) : v[i] = 0 THEN ValN(SubSeq(v, n - 2, n)) ELSE -1

-----------------------------------------------------------------------------
(* Message types and layouts *)
TypeNames == << "Tversion", "Rversion", "Tauth", "Rauth", "Tattach", "Rattach", "Terror", "Rerror",
                "Tflush", "Rflush", "Twalk", "Rwalk", "Topen", "Ropen", "Tcreate", "Rcreate",
                "Tread", "Rread", "Twrite", "Rwrite", "Tclunk", "Rclunk", "Tremove", "Rremove",
                "Tstat", "Rstat", "Twstat", "Rwstat" >>
TypeCode(t) == 99 + (CHOOSE i \in 1..Len(TypeNames) : TypeNames[i] = t)      \* Tversion = 100
Defined(code) == code \in 100..127 /\ code # 106                             \* Terror is illegal
NameOf(code) == TypeNames[code - 99]
AllTypes == SelectSeq(TypeNames, LAMBDA t : t # "Terror")

F(n, k) == [n |-> n, k |-> k]
\* kinds: u8 u16 u32 u64 | str = len[2] bytes | qid = type[1] vers[4] path[8]
\*        names = nwname[2] nwname*(str) | qids = nwqid[2] nwqid*(qid) | data = count[4] bytes
\*        statn = n[2] stat  where stat = size[2] body and n = size+2
Layout(t, dotu) ==
  CASE t = "Tversion" -> << F("msize", "u32"), F("version", "str") >>
    [] t = "Rversion" -> << F("msize", "u32"), F("version", "str") >>
    [] t = "Tauth"    -> << F("afid", "u32"), F("uname", "str"), F("aname", "str") >>
                          \o (IF dotu THEN << F("unamenum", "u32") >> ELSE <<>>)
    [] t = "Rauth"    -> << F("qid", "qid") >>
    [] t = "Tattach"  -> << F("fid", "u32"), F("afid", "u32"), F("uname", "str"), F("aname", "str") >>
                          \o (IF dotu THEN << F("unamenum", "u32") >> ELSE <<>>)
    [] t = "Rattach"  -> << F("qid", "qid") >>
    [] t = "Rerror"   -> << F("ename", "str") >> \o (IF dotu THEN << F("ecode", "u32") >> ELSE <<>>)
    [] t = "Tflush"   -> << F("oldtag", "u16") >>
    [] t = "Rflush"   -> <<>>
    [] t = "Twalk"    -> << F("fid", "u32"), F("newfid", "u32"), F("wname", "names") >>
    [] t = "Rwalk"    -> << F("wqid", "qids") >>
    [] t = "Topen"    -> << F("fid", "u32"), F("mode", "u8") >>
    [] t = "Ropen"    -> << F("qid", "qid"), F("iounit", "u32") >>
    [] t = "Tcreate"  -> << F("fid", "u32"), F("name", "str"), F("perm", "u32"), F("mode", "u8") >>
                          \o (IF dotu THEN << F("ext", "str") >> ELSE <<>>)
    [] t = "Rcreate"  -> << F("qid", "qid"), F("iounit", "u32") >>
    [] t = "Tread"    -> << F("fid", "u32"), F("offset", "u64"), F("count", "u32") >>
    [] t = "Rread"    -> << F("data", "data") >>
    [] t = "Twrite"   -> << F("fid", "u32"), F("offset", "u64"), F("data", "data") >>
    [] t = "Rwrite"   -> << F("count", "u32") >>
    [] t = "Tclunk"   -> << F("fid", "u32") >>
    [] t = "Rclunk"   -> <<>>
    [] t = "Tremove"  -> << F("fid", "u32") >>
    [] t = "Rremove"  -> <<>>
    [] t = "Tstat"    -> << F("fid", "u32") >>
    [] t = "Rstat"    -> << F("stat", "statn") >>
    [] t = "Twstat"   -> << F("fid", "u32"), F("stat", "statn") >>
    [] t = "Rwstat"   -> <<>>

\* body of a stat record after its size[2]
StatLayout(dotu) ==
  << F("type", "u16"), F("dev", "u32"), F("qid", "qid"), F("mode", "u32"), F("atime", "u32"),
     F("mtime", "u32"), F("length", "u64"), F("name", "str"), F("uid", "str"), F("gid", "str"),
     F("muid", "str") >>
  \o (IF dotu THEN << F("ext", "str"), F("uidnum", "u32"), F("gidnum", "u32"), F("muidnum", "u32") >>
      ELSE <<>>)

IsInt(k) == k \in {"u8", "u16", "u32", "u64"}
Width(k) == CASE k = "u8" -> 1 [] k = "u16" -> 2 [] k = "u32" -> 4 [] k = "u64" -> 8

-----------------------------------------------------------------------------
(* Encoding.  Values: ints = numerals of the field width; str/data = [len, pat] (symbolic);
   qid = <<type numeral(1), vers numeral(4), path numeral(8)>>; names = sequence of str values;
   qids = sequence of qid values; statn = positional sequence over StatLayout. *)
Lit(bs)      == [lit |-> bs]
Fill(n, pat) == [fill |-> <<n, pat>>]
Sym(n, pat)  == [len |-> n, pat |-> pat]
StrSegs(s)   == << Lit(LE(Num(s.len, 2))), Fill(s.len, s.pat) >>
QidBytes(q)  == LE(q[1]) \o LE(q[2]) \o LE(q[3])

RECURSIVE SumStr(_), CatStrSegs(_), CatQids(_)
SumStr(ss)     == IF ss = <<>> THEN 0 ELSE 2 + Head(ss).len + SumStr(Tail(ss))
CatStrSegs(ss) == IF ss = <<>> THEN <<>> ELSE StrSegs(Head(ss)) \o CatStrSegs(Tail(ss))
CatQids(qs)    == IF qs = <<>> THEN <<>> ELSE QidBytes(Head(qs)) \o CatQids(Tail(qs))

RECURSIVE BodySize(_, _, _), BodySegs(_, _, _), FSize(_, _, _), FSegs(_, _, _)
StatBody(v, dotu) == BodySize(StatLayout(dotu), v, dotu)
StatSegs(v, dotu) == << Lit(LE(Num(StatBody(v, dotu), 2))) >> \o BodySegs(StatLayout(dotu), v, dotu)
FSize(k, v, dotu) ==
  CASE IsInt(k)    -> Width(k)
    [] k = "str"   -> 2 + v.len
    [] k = "qid"   -> 13
    [] k = "names" -> 2 + SumStr(v)
    [] k = "qids"  -> 2 + 13 * Len(v)
    [] k = "data"  -> 4 + v.len
    [] k = "statn" -> 2 + 2 + StatBody(v, dotu)
FSegs(k, v, dotu) ==
  CASE IsInt(k)    -> << Lit(LE(v)) >>
    [] k = "str"   -> StrSegs(v)
    [] k = "qid"   -> << Lit(QidBytes(v)) >>
    [] k = "names" -> << Lit(LE(Num(Len(v), 2))) >> \o CatStrSegs(v)
    [] k = "qids"  -> << Lit(LE(Num(Len(v), 2)) \o CatQids(v)) >>
    [] k = "data"  -> << Lit(LE(Num(v.len, 4))), Fill(v.len, v.pat) >>
    [] k = "statn" -> << Lit(LE(Num(2 + StatBody(v, dotu), 2))) >> \o StatSegs(v, dotu)
BodySize(lay, m, dotu) == IF lay = <<>> THEN 0
                          ELSE FSize(Head(lay).k, Head(m), dotu) + BodySize(Tail(lay), Tail(m), dotu)
BodySegs(lay, m, dotu) == IF lay = <<>> THEN <<>>
                          ELSE FSegs(Head(lay).k, Head(m), dotu) \o BodySegs(Tail(lay), Tail(m), dotu)

Size(t, dotu, m) == 7 + BodySize(Layout(t, dotu), m, dotu)
\* size[4] type[1] tag[2] fields...
Enc(t, dotu, tag, m) ==
  << Lit(LE(Num(Size(t, dotu, m), 4)) \o << TypeCode(t) >> \o LE(tag)) >> \o BodySegs(Layout(t, dotu), m, dotu)

\* a stat record on its own (directory reads): size[2] body
EncStat(v, dotu)  == StatSegs(v, dotu)
SizeStat(v, dotu) == 2 + StatBody(v, dotu)

SegLen(s) == IF "lit" \in DOMAIN s THEN Len(s.lit) ELSE s.fill[1]
RECURSIVE SegsLen(_)
SegsLen(ss) == IF ss = <<>> THEN 0 ELSE SegLen(Head(ss)) + SegsLen(Tail(ss))
Expand(n, pat) == [i \in 1..n |-> (pat + i - 1) % 256]
SegBytes(s) == IF "lit" \in DOMAIN s THEN s.lit ELSE Expand(s.fill[1], s.fill[2])
RECURSIVE Flatten(_)
Flatten(ss) == IF ss = <<>> THEN <<>> ELSE SegBytes(Head(ss)) \o Flatten(Tail(ss))

\* the same message with strings/data as concrete byte sequences (what Parse yields)
RECURSIVE ConcF(_, _, _), ConcM(_, _, _)
ConcF(k, v, dotu) ==
  CASE k \in {"str", "data"} -> Expand(v.len, v.pat)
    [] k = "names"           -> [i \in 1..Len(v) |-> Expand(v[i].len, v[i].pat)]
    [] k = "statn"           -> ConcM(StatLayout(dotu), v, dotu)
    [] OTHER                 -> v
ConcM(lay, m, dotu) == [i \in 1..Len(lay) |-> ConcF(lay[i].k, m[i], dotu)]

-----------------------------------------------------------------------------
(* Parsing.  b = bytes, p = index of the next byte, lim = index of the last byte that may be used. *)
Bad == [ok |-> FALSE]
Got(p, v) == [ok |-> TRUE, p |-> p, v |-> v]
Have(p, n, lim) == p + n - 1 <= lim
LEInt(b, p, w) == Reverse(SubSeq(b, p, p + w - 1))         \* little-endian bytes -> numeral

PStr(b, p, lim) ==
  IF ~Have(p, 2, lim) THEN Bad
  ELSE LET n == ValN(LEInt(b, p, 2)) IN
       IF ~Have(p + 2, n, lim) THEN Bad ELSE Got(p + 2 + n, SubSeq(b, p + 2, p + 1 + n))
PQid(b, p, lim) ==
  IF ~Have(p, 13, lim) THEN Bad
  ELSE Got(p + 13, << LEInt(b, p, 1), LEInt(b, p + 1, 4), LEInt(b, p + 5, 8) >>)

RECURSIVE PRep(_, _, _, _, _)
PRep(k, n, b, p, lim) ==   \* n elements of kind k ("str" | "qid")
  IF n = 0 THEN Got(p, <<>>)
  ELSE LET r == IF k = "str" THEN PStr(b, p, lim) ELSE PQid(b, p, lim) IN
       IF ~r.ok THEN Bad
       ELSE LET rest == PRep(k, n - 1, b, r.p, lim) IN
            IF ~rest.ok THEN Bad ELSE Got(rest.p, << r.v >> \o rest.v)

RECURSIVE PField(_, _, _, _, _), PFields(_, _, _, _, _)
PStat(b, p, lim, dotu) ==    \* size[2] body; the body must fill its declared size exactly
  IF ~Have(p, 2, lim) THEN Bad
  ELSE LET sz == ValN(LEInt(b, p, 2)) IN
       IF ~Have(p + 2, sz, lim) THEN Bad
       ELSE LET r == PFields(StatLayout(dotu), b, p + 2, p + 1 + sz, dotu) IN
            IF r.ok /\ r.p = p + 2 + sz THEN r ELSE Bad
PField(k, b, p, lim, dotu) ==
  CASE IsInt(k)    -> IF Have(p, Width(k), lim) THEN Got(p + Width(k), LEInt(b, p, Width(k))) ELSE Bad
    [] k = "str"   -> PStr(b, p, lim)
    [] k = "qid"   -> PQid(b, p, lim)
    [] k = "names" -> IF ~Have(p, 2, lim) THEN Bad ELSE PRep("str", ValN(LEInt(b, p, 2)), b, p + 2, lim)
    [] k = "qids"  -> IF ~Have(p, 2, lim) THEN Bad ELSE PRep("qid", ValN(LEInt(b, p, 2)), b, p + 2, lim)
    [] k = "data"  -> IF ~Have(p, 4, lim) THEN Bad
                      ELSE LET n == ValSmall(LEInt(b, p, 4)) IN
                           IF n < 0 \/ ~Have(p + 4, n, lim) THEN Bad
                           ELSE Got(p + 4 + n, SubSeq(b, p + 4, p + 3 + n))
    [] k = "statn" -> IF ~Have(p, 2, lim) THEN Bad
                      ELSE LET n == ValN(LEInt(b, p, 2))  r == PStat(b, p + 2, lim, dotu) IN
                           IF r.ok /\ r.p = p + 2 + n THEN r ELSE Bad    \* n = size + 2
PFields(lay, b, p, lim, dotu) ==
  IF lay = <<>> THEN Got(p, <<>>)
  ELSE LET r == PField(Head(lay).k, b, p, lim, dotu) IN
       IF ~r.ok THEN Bad
       ELSE LET rest == PFields(Tail(lay), b, r.p, lim, dotu) IN
            IF ~rest.ok THEN Bad ELSE Got(rest.p, << r.v >> \o rest.v)

\* A well-formed message at the start of b: 7 <= size <= Len(b), a defined type, and the fields
\* of the type's layout fill bytes 8..size exactly.  Bytes after `size` are not part of it.
Parse(b, dotu) ==
  IF Len(b) < 7 THEN Bad
  ELSE LET sz == ValSmall(LEInt(b, 1, 4)) IN
       IF sz < 7 \/ sz > Len(b) \/ ~Defined(b[5]) THEN Bad
       ELSE LET t == NameOf(b[5])
                r == PFields(Layout(t, dotu), b, 8, sz, dotu) IN
            IF r.ok /\ r.p = sz + 1
            THEN [ok |-> TRUE, size |-> sz, type |-> t, tag |-> LEInt(b, 6, 2), vals |-> r.v]
            ELSE Bad
\* A well-formed stat record at the start of b.
ParseStat(b, dotu) ==
  LET r == PStat(b, 1, Len(b), dotu) IN
  IF r.ok THEN [ok |-> TRUE, size |-> r.p - 1, type |-> "stat", tag |-> <<0, 0>>, vals |-> r.v] ELSE Bad

-----------------------------------------------------------------------------
(* Job "enc": field value classes and their product *)
IntCls(w) == << ZeroN(w), OneN(w), MaxN(w) >>
StrLens == << 0, 1, 2, 255, 256, 65535 >>
StrCls(pat) == [i \in 1..Len(StrLens) |-> Sym(StrLens[i], pat)]
Q(a, b, c) == << a, b, c >>
QidCls == LET c1 == IntCls(1) c4 == IntCls(4) c8 == IntCls(8) IN
          [i \in 1..27 |-> Q(c1[((i - 1) \div 9) + 1], c4[(((i - 1) \div 3) % 3) + 1], c8[((i - 1) % 3) + 1])]
QMix(i) == Q(<< (i * 37) % 256 >>, Num(i * 65537 + 3, 4), Num(i, 4) \o Num(i * 1000003 + 7, 4))
NamesCls ==
  LET S(n) == Sym(n, 97 + (n % 7)) IN
  << <<>>, << S(0) >>, << S(1) >>, << S(65535) >>, << S(1), S(2) >>, << S(0), S(255) >>,
     << S(256), S(1), S(0) >>, << S(2), S(2), S(2) >>, << S(65535), S(65535), S(1) >>,
     [i \in 1..16 |-> S(1)], [i \in 1..16 |-> S(StrLens[((i - 1) % 6) + 1])], [i \in 1..16 |-> S(65535)] >>
QidsCls ==
  << <<>>, << QidCls[1] >>, << QidCls[14] >>, << QidCls[27] >>, << QMix(1) >>, << QMix(1), QMix(2) >>,
     << QidCls[27], QidCls[1], QMix(3) >>, [i \in 1..16 |-> QMix(i)], [i \in 1..16 |-> QidCls[27]] >>
DataCls == << Sym(0, 0), Sym(1, 7), Sym(65536, 1), Sym(1048576, 250) >>

\* --- stat records: a covering of the class product (the full product is 3^9 * 6^4 and more)
StatFixed(dotu) == IF dotu THEN 61 ELSE 47        \* body bytes when all strings are empty
StatMaxStr(dotu) == 65533 - StatFixed(dotu)       \* longest single string: outer n[2] of Rstat = 65535
NStatInts(dotu) == IF dotu THEN 10 ELSE 7         \* type dev qid mode atime mtime length (uidnum gidnum muidnum)
NStatStrs(dotu) == IF dotu THEN 5 ELSE 4          \* name uid gid muid (ext)
StatIntW == << 2, 4, 0, 4, 4, 4, 8, 4, 4, 4 >>    \* 0 = qid
StatIntAll(c, dotu) ==   \* c = 1 zero, 2 one, 3 max, 4 distinct bytes everywhere
  [i \in 1..NStatInts(dotu) |->
     IF StatIntW[i] = 0
     THEN (IF c = 4 THEN Q(<<128>>, <<1, 2, 3, 4>>, <<5, 6, 7, 8, 9, 10, 11, 12>>) ELSE QidCls[IF c = 1 THEN 1 ELSE IF c = 2 THEN 14 ELSE 27])
     ELSE (IF c = 4 THEN [j \in 1..StatIntW[i] |-> 16 * i + j] ELSE IntCls(StatIntW[i])[c])]
StatIntOneHot(h, dotu) ==  \* field h at max, all others zero
  [i \in 1..NStatInts(dotu) |-> IF i = h THEN StatIntAll(3, dotu)[i] ELSE StatIntAll(1, dotu)[i]]
StatIntOneCold(h, dotu) == \* field h at zero, all others max
  [i \in 1..NStatInts(dotu) |-> IF i = h THEN StatIntAll(1, dotu)[i] ELSE StatIntAll(3, dotu)[i]]
StatIntVecs(dotu) == [c \in 1..4 |-> StatIntAll(c, dotu)]
                     \o [h \in 1..NStatInts(dotu) |-> StatIntOneHot(h, dotu)]
                     \o [h \in 1..NStatInts(dotu) |-> StatIntOneCold(h, dotu)]
StatStrLens == IF Full THEN << 0, 1, 2, 255, 256 >> ELSE << 0, 1, 256 >>
RECURSIVE Pow(_, _)
Pow(a, n) == IF n = 0 THEN 1 ELSE a * Pow(a, n - 1)
StatStrProd(dotu) ==   \* product of the short classes over all strings
  LET k == NStatStrs(dotu)  c == Len(StatStrLens) IN
  [i \in 1..Pow(c, k) |-> [j \in 1..k |-> Sym(StatStrLens[(((i - 1) \div Pow(c, k - j)) % c) + 1], 64 + 8 * j)]]
StatStrLong(dotu) ==   \* each string in turn as long as the record allows (record body 65533: n = 65535)
  LET k == NStatStrs(dotu) IN
  [h \in 1..k |-> [j \in 1..k |-> Sym(IF j = h THEN StatMaxStr(dotu) ELSE 0, 64 + 8 * j)]]
  \o [h \in 1..k |-> [j \in 1..k |-> Sym(IF j = h THEN StatMaxStr(dotu) - 3 * (k - 1) ELSE 3, 64 + 8 * j)]]
  \o << [j \in 1..k |-> Sym(IF j = 1 THEN StatMaxStr(dotu) - (k - 1) * (StatMaxStr(dotu) \div k) ELSE StatMaxStr(dotu) \div k, 64 + 8 * j)] >>
StatStrFew(dotu) == LET k == NStatStrs(dotu) IN
  << [j \in 1..k |-> Sym(0, 64 + 8 * j)], [j \in 1..k |-> Sym(j, 64 + 8 * j)], [j \in 1..k |-> Sym(255 + (j % 2), 64 + 8 * j)] >>
StatVal(I, S, dotu) == SubSeq(I, 1, 7) \o SubSeq(S, 1, 4) \o (IF dotu THEN << S[5] >> \o SubSeq(I, 8, 10) ELSE <<>>)
Cross(A, B, Op(_, _)) == [i \in 1..(Len(A) * Len(B)) |-> Op(A[((i - 1) \div Len(B)) + 1], B[((i - 1) % Len(B)) + 1])]
StatCls(dotu) ==
  LET mk(I, S) == StatVal(I, S, dotu) IN
  Cross(StatIntVecs(dotu), StatStrFew(dotu) \o StatStrLong(dotu), mk)
  \o Cross(<< StatIntAll(1, dotu), StatIntAll(3, dotu), StatIntAll(4, dotu) >>, StatStrProd(dotu), mk)

Classes(f, idx, dotu) ==
  CASE IsInt(f.k)    -> IntCls(Width(f.k))
    [] f.k = "str"   -> StrCls(33 + 16 * idx)
    [] f.k = "qid"   -> QidCls
    [] f.k = "names" -> NamesCls
    [] f.k = "qids"  -> QidsCls
    [] f.k = "data"  -> DataCls
    [] f.k = "statn" -> StatCls(dotu)

RECURSIVE Prod(_, _, _)
Prod(lay, idx, dotu) ==
  IF lay = <<>> THEN << <<>> >>
  ELSE LET cons(a, b) == << a >> \o b IN Cross(Classes(Head(lay), idx, dotu), Prod(Tail(lay), idx + 1, dotu), cons)

Named(lay, m) == [i \in 1..Len(lay) |-> [n |-> lay[i].n, k |-> lay[i].k, v |-> m[i]]]
TagCls == IntCls(2)
HasStat(t) == t \in {"Rstat", "Twstat"}
EncVec(t, dotu, tag, m) ==
  [type |-> t, dotu |-> dotu, tag |-> tag, msg |-> Named(Layout(t, dotu), m),
   size |-> Size(t, dotu, m), segs |-> Enc(t, dotu, tag, m)]
EncVecStat(dotu, v) ==
  [type |-> "stat", dotu |-> dotu, tag |-> ZeroN(2), msg |-> << [n |-> "stat", k |-> "stat", v |-> v] >>,
   size |-> SizeStat(v, dotu), segs |-> EncStat(v, dotu)]
\* bare stat records may be 2 bytes longer than those inside Rstat (no outer n[2])
StatBareExtra(dotu) == LET k == NStatStrs(dotu) IN
  [h \in 1..k |-> StatVal(StatIntAll(4, dotu), [j \in 1..k |-> Sym(IF j = h THEN StatMaxStr(dotu) + 2 ELSE 0, 64 + 8 * j)], dotu)]
\* In messages that carry a stat record the other fields (tag, fid) cycle through their classes
\* instead of multiplying the (already large) covering of the stat classes; all nine
\* (tag, fid) class pairs occur.
EncVecsOf(t, dotu) ==
  IF t = "stat" THEN LET vs == StatCls(dotu) \o StatBareExtra(dotu) IN [i \in 1..Len(vs) |-> EncVecStat(dotu, vs[i])]
  ELSE IF HasStat(t)
       THEN LET sc == StatCls(dotu) IN
            [i \in 1..Len(sc) |-> EncVec(t, dotu, TagCls[(i % 3) + 1],
                                         IF t = "Twstat" THEN << IntCls(4)[((i \div 3) % 3) + 1], sc[i] >> ELSE << sc[i] >>)]
       ELSE LET ms == Prod(Layout(t, dotu), 1, dotu)
                mk(tg, m) == EncVec(t, dotu, tg, m) IN Cross(TagCls, ms, mk)
RECURSIVE EncVecs(_)
EncVecs(sel) == IF sel = <<>> THEN <<>>
                ELSE (IF FALSE \in Dialects THEN EncVecsOf(Head(sel), FALSE) ELSE <<>>)
                     \o (IF TRUE \in Dialects THEN EncVecsOf(Head(sel), TRUE) ELSE <<>>) \o EncVecs(Tail(sel))

-----------------------------------------------------------------------------
(* Job "dec": canonical small packets and their mutations *)
CanonTag == << 18, 52 >>      \* 0x1234
CanonQid(i) == Q(<< 128 + i >>, << 0, 0, 1, i >>, << 0, 0, 0, 0, 0, 2, 3, i >>)
\* Two canonical packets per type and dialect: variant 1 has short non-empty strings, two names,
\* two qids, three data bytes; variant 2 ("min") is the smallest packet of the type: empty strings,
\* no names, no qids, no data.
CanonF(f, idx, var) ==
  CASE IsInt(f.k)    -> [j \in 1..Width(f.k) |-> IF j = Width(f.k) THEN 16 * idx + 1 ELSE IF j = Width(f.k) - 1 THEN idx ELSE 0]
    [] f.k = "str"   -> IF var = 1 THEN Sym(1 + (idx % 3), 96 + idx) ELSE Sym(0, 0)
    [] f.k = "qid"   -> CanonQid(idx)
    [] f.k = "names" -> IF var = 1 THEN << Sym(2, 97), Sym(1, 120) >> ELSE <<>>
    [] f.k = "qids"  -> IF var = 1 THEN << CanonQid(1), CanonQid(2) >> ELSE <<>>
    [] f.k = "data"  -> IF var = 1 THEN Sym(3, 200) ELSE Sym(0, 0)
CanonStat(dotu, var) == LET lay == StatLayout(dotu) IN [i \in 1..Len(lay) |-> CanonF(lay[i], i, var)]
CanonMsg(t, dotu, var) == LET lay == Layout(t, dotu) IN
  [i \in 1..Len(lay) |-> IF lay[i].k = "statn" THEN CanonStat(dotu, var) ELSE CanonF(lay[i], i, var)]
CanonBytes(t, dotu, var) == IF t = "stat" THEN Flatten(EncStat(CanonStat(dotu, var), dotu))
                            ELSE Flatten(Enc(t, dotu, CanonTag, CanonMsg(t, dotu, var)))

\* sites of count/length fields: [off (1-based), w, cur, name]
Site(off, w, cur, name) == [off |-> off, w |-> w, cur |-> cur, name |-> name]
RECURSIVE StrSites(_, _, _, _), LaySites(_, _, _, _, _)
StrSites(ss, off, pre, i) == IF ss = <<>> THEN <<>>
  ELSE << Site(off, 2, Head(ss).len, pre \o ToString(i) \o ".len") >> \o StrSites(Tail(ss), off + 2 + Head(ss).len, pre, i + 1)
FSites(f, v, off, pre, dotu) ==
  CASE f.k = "str"   -> << Site(off, 2, v.len, pre \o f.n \o ".len") >>
    [] f.k = "names" -> << Site(off, 2, Len(v), pre \o "nwname") >> \o StrSites(v, off + 2, pre \o "wname", 0)
    [] f.k = "qids"  -> << Site(off, 2, Len(v), pre \o "nwqid") >>
    [] f.k = "data"  -> << Site(off, 4, v.len, pre \o "count") >>
    [] f.k = "statn" -> << Site(off, 2, 2 + StatBody(v, dotu), pre \o "stat.n"),
                           Site(off + 2, 2, StatBody(v, dotu), pre \o "stat.size") >>
                        \o LaySites(StatLayout(dotu), v, off + 4, "stat.", dotu)
    [] OTHER -> <<>>
LaySites(lay, m, off, pre, dotu) == IF lay = <<>> THEN <<>>
  ELSE FSites(Head(lay), Head(m), off, pre, dotu)
       \o LaySites(Tail(lay), Tail(m), off + FSize(Head(lay).k, Head(m), dotu), pre, dotu)
Sites(t, dotu, var) ==
  IF t = "stat" THEN << Site(1, 2, StatBody(CanonStat(dotu, var), dotu), "stat.size") >>
                     \o LaySites(StatLayout(dotu), CanonStat(dotu, var), 3, "stat.", dotu)
  ELSE LaySites(Layout(t, dotu), CanonMsg(t, dotu, var), 8, "", dotu)

SubVals(s) ==   \* substituted values as [label, little-endian bytes]
  LET small == {0, 1, s.cur - 1, s.cur, s.cur + 1, 16, 255, 256} \cap 0..65535
      sm    == SetToSeq(small) IN
  [i \in 1..Len(sm) |-> << ToString(sm[i]), LE(Num(sm[i], s.w)) >>]
  \o (IF s.w = 2 THEN << << "0xFFFF", <<255, 255>> >>, << "0x8000", <<0, 128>> >>, << "0x7FFF", <<255, 127>> >> >>
      ELSE << << "0xFFFF", <<255, 255, 0, 0>> >>, << "0x10000", <<0, 0, 1, 0>> >>, << "0x1000000", <<0, 0, 0, 1>> >>,
              << "0x7FFFFFFF", <<255, 255, 255, 127>> >>, << "0x80000000", <<0, 0, 0, 128>> >>,
              << "0xFFFFFFF0", <<240, 255, 255, 255>> >>, << "0xFFFFFFFF", <<255, 255, 255, 255>> >> >>)
WrapCount(e, r) == CHOOSE v \in 0..65535 : (v * e) % 65536 = r
Patch(b, off, bytes) == [i \in 1..Len(b) |-> IF i >= off /\ i < off + Len(bytes) THEN bytes[i - off + 1] ELSE b[i]]

DecVecV(t, dotu, var, kind, arg, b) ==
  LET r == IF t = "stat" THEN ParseStat(b, dotu) ELSE Parse(b, dotu) IN
  [type |-> t, dotu |-> dotu, var |-> var, kind |-> kind,
   mut |-> (IF var = 2 THEN "min:" ELSE "") \o kind \o arg, bytes |-> b, ok |-> r.ok,
   size |-> IF r.ok THEN r.size ELSE 0,
   ptype |-> IF r.ok THEN r.type ELSE "",
   tag |-> IF r.ok THEN r.tag ELSE <<>>,
   fields |-> IF ~r.ok THEN <<>>
              ELSE IF t = "stat" THEN << [n |-> "stat", k |-> "stat", v |-> r.vals] >>
              ELSE Named(Layout(r.type, dotu), r.vals)]

SizeVals(n) == [i \in 1..(n + 3) |-> << ToString(i - 1), LE(Num(i - 1, 4)) >>]
  \o << << "0xFFFF", <<255, 255, 0, 0>> >>, << "0x10000", <<0, 0, 1, 0>> >>, << "0x1000000", <<0, 0, 0, 1>> >>,
        << "0x7FFFFFFF", <<255, 255, 255, 127>> >>, << "0x80000000", <<0, 0, 0, 128>> >>,
        << "0xFFFFFFFF", <<255, 255, 255, 255>> >> >>
TypeVals == << 0, 1, 99, 100, 106, 127, 128, 129, 133, 255 >>

DecVecsOf(t, dotu, var) ==
  LET c  == CanonBytes(t, dotu, var)
      n  == Len(c)
      st == Sites(t, dotu, var)
      hd == IF t = "stat" THEN 2 ELSE 4
      DecVec(tt, dd, kind, arg, b) == DecVecV(tt, dd, var, kind, arg, b) IN
  \* the packet itself, with and without trailing bytes
  << DecVec(t, dotu, "canon", "", c), DecVec(t, dotu, "canon", "+tail", c \o << 0, 0, 0, 0, 0, 0, 0, 0, 0 >>),
     DecVec(t, dotu, "canon", "+tailFF", c \o << 255, 255, 255, 255, 255, 255, 255, 255, 255 >>) >>
  \* trunc@k: the first k bytes, size prefix untouched
  \o [k \in 1..n |-> DecVec(t, dotu, "trunc", "@" \o ToString(k - 1), SubSeq(c, 1, k - 1))]
  \* cut@k: the first k bytes with the size prefix set to k (a complete frame that ends early)
  \o [k \in 1..(n - hd) |-> LET kk == hd + k - 1 IN
        DecVec(t, dotu, "cut", "@" \o ToString(kk),
               Patch(SubSeq(c, 1, kk), 1, LE(Num(IF t = "stat" THEN kk - 2 ELSE kk, hd))))]
  \* size=v: only the declared size changes (messages)
  \o (IF t = "stat" THEN <<>>
      ELSE LET sv == SizeVals(n) IN [i \in 1..Len(sv) |-> DecVec(t, dotu, "size", "=" \o sv[i][1], Patch(c, 1, sv[i][2]))])
  \* extend@v: declared size v > n with that many bytes really present (zero padding)
  \o (IF t = "stat" THEN <<>>
      ELSE [e \in 1..3 |-> DecVec(t, dotu, "extend", "@" \o ToString(n + e), Patch(c \o ZeroN(e), 1, LE(Num(n + e, 4))))])
  \* sub:<site>=<v>: one count/length field substituted; once as is, once with the frame padded by
  \* 300 zero bytes and the size prefix enlarged accordingly (so that moderate counts are covered)
  \o FlattenSeq([s \in 1..Len(st) |->
        LET sv == SubVals(st[s]) IN
        [i \in 1..Len(sv) |-> DecVec(t, dotu, "sub", ":" \o st[s].name \o "=" \o sv[i][1], Patch(c, st[s].off, sv[i][2]))]
        \o (IF t = "stat" THEN <<>> ELSE
            [i \in 1..Len(sv) |-> DecVec(t, dotu, "subpad", ":" \o st[s].name \o "=" \o sv[i][1],
                                         Patch(Patch(c \o ZeroN(300), st[s].off, sv[i][2]), 1, LE(Num(n + 300, 4))))])])
  \* wrap:<site>+r: a count of fixed-size elements v with (v * elemsize) mod 2^16 = r followed by r bytes, so that a
  \* length test done in 16-bit arithmetic passes although v elements do not fit (qids: 13 bytes each)
  \o FlattenSeq([s \in 1..Len(st) |->
        IF st[s].name = "nwqid"
          THEN [r \in 1..14 |->
                  DecVec(t, dotu, "wrap", ":" \o st[s].name \o "+" \o ToString(r),
                         Patch(Patch(SubSeq(c, 1, st[s].off + 1) \o ZeroN(r), st[s].off, LE(Num(WrapCount(13, r), 2))),
                               1, LE(Num(st[s].off + 1 + r, 4))))]
          ELSE <<>>])
  \* type byte substitutions (messages)
  \o (IF t = "stat" THEN <<>>
      ELSE [i \in 1..Len(TypeVals) |-> DecVec(t, dotu, "type", "=" \o ToString(TypeVals[i]), Patch(c, 5, << TypeVals[i] >>))])
RECURSIVE DecVecs(_)
DecVecs(sel) == IF sel = <<>> THEN <<>>
                ELSE (IF FALSE \in Dialects THEN DecVecsOf(Head(sel), FALSE, 1) \o DecVecsOf(Head(sel), FALSE, 2) ELSE <<>>)
                     \o (IF TRUE \in Dialects THEN DecVecsOf(Head(sel), TRUE, 1) \o DecVecsOf(Head(sel), TRUE, 2) ELSE <<>>)
                     \o DecVecs(Tail(sel))

-----------------------------------------------------------------------------
SelSeq == SelectSeq(AllTypes \o << "stat" >>, LAMBDA t : t \in Sel)
VSeq == IF Job = "enc" THEN EncVecs(SelSeq) ELSE DecVecs(SelSeq)

\* Every vector is one initial state.  VSeq is evaluated once (TLC does not cache it as a constant),
\* exported, and then enumerated.
VARIABLE vec
Init == LET V == VSeq IN
        /\ PrintT(<< "vectors", Job, Len(V) >>)
        /\ ndJsonSerialize(OutFile, V)
        /\ \E j \in 1..Len(V) : vec = V[j]
Next == UNCHANGED vec
Spec == Init /\ [][Next]_vec

(* Consistency of the specification itself, checked on every vector *)
SmallLimit == 700

EncOK(v) ==
  /\ SegsLen(v.segs) = v.size                                   \* the size field is the packet length
  /\ v.type # "stat" => /\ SubSeq(v.segs[1].lit, 1, 4) = LE(Num(v.size, 4))
                        /\ v.segs[1].lit[5] = TypeCode(v.type)
                        /\ SubSeq(v.segs[1].lit, 6, 7) = LE(v.tag)
  /\ v.size <= SmallLimit =>                                    \* Parse inverts Enc
       LET b == Flatten(v.segs)
           vals == [j \in 1..Len(v.msg) |-> v.msg[j].v] IN
       IF v.type = "stat"
       THEN LET r == ParseStat(b, v.dotu) IN r.ok /\ r.size = v.size /\ r.vals = ConcM(StatLayout(v.dotu), vals[1], v.dotu)
       ELSE LET r == Parse(b, v.dotu) IN
            /\ r.ok /\ r.size = v.size /\ r.type = v.type /\ r.tag = v.tag
            /\ r.vals = ConcM(Layout(v.type, v.dotu), vals, v.dotu)
            /\ ~Parse(b, ~v.dotu).ok <=> (HasStat(v.type) \/ Layout(v.type, TRUE) # Layout(v.type, FALSE))  \* dialects differ exactly there
DecOK(v) ==
  LET c == CanonBytes(v.type, v.dotu, v.var)
      P(b) == IF v.type = "stat" THEN ParseStat(b, v.dotu) ELSE Parse(b, v.dotu) IN
  /\ v.ok => /\ v.size <= Len(v.bytes)
             /\ v.type # "stat" => v.size >= 7
             \* the verdict depends only on the bytes up to the declared size
             /\ LET r == P(SubSeq(v.bytes, 1, v.size)) IN r.ok /\ r.size = v.size /\ r.vals = P(v.bytes).vals
  \* a proper prefix of the canonical packet is never well-formed, whatever size it declares
  /\ v.kind \in {"trunc", "cut"} => ~v.ok
  \* padding after the last field is not part of any layout
  /\ v.kind = "extend" => ~v.ok
  \* the canonical packet is well-formed exactly when its declared size is its length
  /\ v.kind = "canon" => v.ok /\ v.size = Len(c)
  /\ v.kind = "size" => (v.ok <=> LEInt(v.bytes, 1, 4) = Num(Len(c), 4))
VecOK == IF Job = "enc" THEN EncOK(vec) ELSE DecOK(vec)
=============================================================================
