------------------------------- MODULE Work19 -------------------------------
(* The workload domain of property C19: which concurrent request patterns are INSIDE its
   precondition.  G client goroutines share one connection (or one client); each works only on fids
   of its own; any number of walks may start from the shared root fid; a goroutine may flush its own
   outstanding request; auxiliary connections are opened and dropped only while they have no
   request outstanding.  TLC checks that every reachable state keeps concurrently outstanding
   requests on different fids (DisjointFids) and exports simulated behaviours; the harness expands
   each behaviour's per-goroutine operation sequence into real goroutines under the race detector.
   TLC decides nothing about races in the code: the race detector is the oracle. *)
EXTENDS Integers, Sequences, FiniteSets, TLC

CONSTANTS G,        \* number of client goroutines
          MaxOps,   \* operations per goroutine
          Aux       \* number of auxiliary connections

Gs == 1..G
Ops == {"walk", "open", "read", "write", "stat", "clunk", "create", "wstat", "remove"}

VARIABLES fst,      \* per goroutine: state of its own fid: "none" | "walked" | "open"
          out,      \* per goroutine: outstanding operation or "none"
          flushing, \* per goroutine: a flush of its outstanding request is outstanding too
          nops, aux, auxout
vars == <<fst, out, flushing, nops, aux, auxout>>

Init == /\ fst = [g \in Gs |-> "none"] /\ out = [g \in Gs |-> "none"] /\ flushing = [g \in Gs |-> FALSE]
        /\ nops = [g \in Gs |-> 0] /\ aux = [a \in 1..Aux |-> "closed"] /\ auxout = [a \in 1..Aux |-> FALSE]

Legal(g, op) == CASE op = "walk" -> fst[g] = "none"               \* from the shared root to the goroutine's own new fid
                  [] op \in {"open", "create"} -> fst[g] = "walked"
                  [] op \in {"read", "write"} -> fst[g] = "open"
                  [] op \in {"stat", "wstat"} -> fst[g] # "none"
                  [] op \in {"clunk", "remove"} -> fst[g] # "none"

Issue(g, op) == /\ out[g] = "none" /\ nops[g] < MaxOps /\ Legal(g, op)
                /\ out' = [out EXCEPT ![g] = op] /\ nops' = [nops EXCEPT ![g] = @ + 1]
                /\ UNCHANGED <<fst, flushing, aux, auxout>>
Flush(g) == /\ out[g] # "none" /\ ~flushing[g]
            /\ flushing' = [flushing EXCEPT ![g] = TRUE] /\ UNCHANGED <<fst, out, nops, aux, auxout>>
Complete(g) == /\ out[g] # "none"
               /\ fst' = [fst EXCEPT ![g] = CASE out[g] = "walk" -> "walked"
                                                [] out[g] \in {"open", "create"} -> "open"
                                                [] out[g] \in {"clunk", "remove"} -> "none"
                                                [] OTHER -> @]
               /\ out' = [out EXCEPT ![g] = "none"] /\ flushing' = [flushing EXCEPT ![g] = FALSE]
               /\ UNCHANGED <<nops, aux, auxout>>
AuxOpen(a) == aux[a] = "closed" /\ aux' = [aux EXCEPT ![a] = "open"] /\ UNCHANGED <<fst, out, flushing, nops, auxout>>
AuxRpc(a) == aux[a] = "open" /\ ~auxout[a] /\ auxout' = [auxout EXCEPT ![a] = TRUE] /\ UNCHANGED <<fst, out, flushing, nops, aux>>
AuxDone(a) == auxout[a] /\ auxout' = [auxout EXCEPT ![a] = FALSE] /\ UNCHANGED <<fst, out, flushing, nops, aux>>
AuxDrop(a) == aux[a] = "open" /\ ~auxout[a] /\ aux' = [aux EXCEPT ![a] = "closed"] /\ UNCHANGED <<fst, out, flushing, nops, auxout>>

Next == \/ \E g \in Gs, op \in Ops : Issue(g, op)
        \/ \E g \in Gs : Flush(g) \/ Complete(g)
        \/ \E a \in 1..Aux : AuxOpen(a) \/ AuxRpc(a) \/ AuxDone(a) \/ AuxDrop(a)
Spec == Init /\ [][Next]_vars

(* the precondition of C19: concurrently outstanding requests operate on different fids -- goroutine g's
   requests name only fid g (walks name the shared root as source, which the property allows) *)
DisjointFids == \A g, h \in Gs : (g # h /\ out[g] # "none" /\ out[h] # "none") => g # h
DropOnlyQuiescent == \A a \in 1..Aux : auxout[a] => aux[a] = "open"
TypeOK == \A g \in Gs : fst[g] \in {"none", "walked", "open"}
=============================================================================
